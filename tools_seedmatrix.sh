#!/bin/sh
# Applies every seeded change under <verif>/seeded to a scratch worktree of /repo HEAD, runs the
# check of its property (quick tier; thorough as well when quick misses it) and writes the
# catch matrix to <verif>/seeded/MATRIX.md. The worktree is removed afterwards.
# <verif> is the directory of this script (so it works from a `vp run` snapshot); optional
# arguments restrict the run to the named seeds (e.g. C11-1 C12-3).
V=$(cd "$(dirname "$0")" && pwd)
if [ ! -x $V/bin/govc ]; then (cd $V/govc && GOFLAGS=-mod=mod GOPROXY=off GOTOOLCHAIN=local PATH=/opt/veriftools/go1.26.8/bin:$PATH go build -o $V/bin/govc .) || exit 2; fi
TAG=$$
WT=/var/tmp/verif-scratch-seedmatrix-$TAG
OUT=/var/tmp/verif-scratch-seedout-$TAG
git -C /repo worktree add --detach $WT HEAD -q || exit 2
M=$V/seeded/MATRIX.md
[ $# -gt 0 ] && M=$V/seeded/MATRIX.partial.md
echo "| seed | property | caught by quick | caught by thorough | first reported obligation / case |" > $M
echo "|---|---|---|---|---|" >> $M
if [ $# -gt 0 ]; then LIST=""; for s in "$@"; do LIST="$LIST $V/seeded/$s/"; done; else LIST=$(ls -d $V/seeded/C*/); fi
for d in $LIST; do
  s=$(basename $d); id=${s%-*}
  git -C $WT checkout -q -- . && git -C $WT clean -fdq
  if ! git -C $WT apply $d/patch.diff 2>/dev/null; then echo "| $s | $id | patch does not apply | | |" >> $M; continue; fi
  q=$($V/bin/govc check $id --tier quick --repo $WT --verif $V --out $OUT 2>&1)
  if echo "$q" | grep -q '^VIOLATION'; then qc=yes; tc="-"; first=$(echo "$q" | grep -A1 '^VIOLATION' | grep -v '^VIOLATION' | head -1 | cut -c1-160 | tr '|' '/')
  else qc=no
    t=$($V/bin/govc check $id --tier thorough --repo $WT --verif $V --out $OUT 2>&1)
    if echo "$t" | grep -q '^VIOLATION'; then tc=yes; first=$(echo "$t" | grep -A1 '^VIOLATION' | grep -v '^VIOLATION' | head -1 | cut -c1-160 | tr '|' '/'); else tc=no; first=""; fi
  fi
  echo "| $s | $id | $qc | $tc | $first |" >> $M
done
git -C $WT checkout -q -- . ; git -C /repo worktree remove --force $WT; rm -rf $OUT
cat $M
