#!/bin/sh
# Applies every seeded change under /verif/seeded to a scratch worktree of /repo HEAD, runs the
# check of its property (quick tier; thorough as well when quick misses it) and writes the
# catch matrix to /verif/seeded/MATRIX.md. The worktree is removed afterwards.
WT=/var/tmp/verif-scratch-seedmatrix
OUT=/var/tmp/verif-scratch-seedout
git -C /repo worktree remove --force $WT 2>/dev/null
git -C /repo worktree add --detach $WT HEAD -q || exit 2
M=/verif/seeded/MATRIX.md
echo "| seed | property | caught by quick | caught by thorough | first reported obligation / case |" > $M
echo "|---|---|---|---|---|" >> $M
for d in /verif/seeded/C*/; do
  s=$(basename $d); id=${s%-*}
  git -C $WT checkout -q -- . && git -C $WT clean -fdq
  if ! git -C $WT apply $d/patch.diff 2>/dev/null; then echo "| $s | $id | patch does not apply | | |" >> $M; continue; fi
  q=$(/verif/bin/govc check $id --tier quick --repo $WT --out $OUT 2>&1)
  if echo "$q" | grep -q '^VIOLATION'; then qc=yes; tc="-"; first=$(echo "$q" | grep -A1 '^VIOLATION' | grep -v '^VIOLATION' | head -1 | cut -c1-160 | tr '|' '/')
  else qc=no
    t=$(/verif/bin/govc check $id --tier thorough --repo $WT --out $OUT 2>&1)
    if echo "$t" | grep -q '^VIOLATION'; then tc=yes; first=$(echo "$t" | grep -A1 '^VIOLATION' | grep -v '^VIOLATION' | head -1 | cut -c1-160 | tr '|' '/'); else tc=no; first=""; fi
  fi
  echo "| $s | $id | $qc | $tc | $first |" >> $M
done
git -C $WT checkout -q -- . ; git -C /repo worktree remove --force $WT; rm -rf $OUT
cat $M
