package parser

import (
	"strings"
	"testing"

	"github.com/bufbuild/protocompile/reporter"
)

func TestF1BadEscapeInvalidByte(t *testing.T) {
	for _, in := range []string{"\"\\\xff\"", "\"\\x\xff\xff\"", "x = \"\\\xffabc\";"} {
		h := reporter.NewHandler(reporter.NewReporter(func(err reporter.ErrorWithPos) error { return nil }, nil))
		func() {
			defer func() {
				if r := recover(); r != nil {
					t.Errorf("input %q: panic: %v", in, r)
				}
			}()
			_, _ = Parse("t.proto", strings.NewReader(in), h)
		}()
	}
}
