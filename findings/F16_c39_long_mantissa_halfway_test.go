package decimal

import (
	"strconv"
	"strings"
	"testing"
)

func TestF16LongMantissaNearBoundary(t *testing.T) {
	for _, n := range []int{700, 784, 785, 800, 900} {
		s := "9007199254740993." + strings.Repeat("0", n) + "1"
		want, _ := strconv.ParseFloat(s, 64)
		d, err := new(Decimal).Parse(s)
		if err != nil {
			t.Fatal(err)
		}
		got, _ := d.Float64()
		if got != want {
			t.Errorf("%d fraction zeros (%d digits): Float64 = %v, strconv on the same text = %v", n, 17+n, got, want)
		}
	}
}
