package linker

import (
	"sync"
	"testing"

	"google.golang.org/protobuf/types/descriptorpb"
	"google.golang.org/protobuf/types/known/anypb"
	"google.golang.org/protobuf/types/known/durationpb"

	"github.com/bufbuild/protocompile/reporter"
)

// Run with -race: Lookup/LookupExtension during a concurrent Import must not race.
func TestF7LookupDuringImport(t *testing.T) {
	var s Symbols
	h := reporter.NewHandler(nil)
	var wg sync.WaitGroup
	wg.Add(2)
	go func() {
		defer wg.Done()
		_ = s.Import(descriptorpb.File_google_protobuf_descriptor_proto, h)
		_ = s.Import(anypb.File_google_protobuf_any_proto, h)
		_ = s.Import(durationpb.File_google_protobuf_duration_proto, h)
	}()
	go func() {
		defer wg.Done()
		for i := 0; i < 2000; i++ {
			_ = s.Lookup("google.protobuf.FileDescriptorProto")
			_ = s.LookupExtension("google.protobuf.FileOptions", 1000)
		}
	}()
	wg.Wait()
}
