package parser

import (
	"strings"
	"testing"

	"github.com/bufbuild/protocompile/reporter"
)

// Every reported error position must satisfy: line == 1 + number of '\n' before its offset.
func TestF2NewlineInsideStringLiteral(t *testing.T) {
	inputs := []string{
		"message M { optional string s = \"abc\n\n\n@ }",
		"x = \"a\\\nb\";\n\n@",
		"x = \"a\\x\n\";\n\n@",
		"x = \"a\\u12\n\";\n\n@",
		"x = \"a\\U0012\n\";\n\n@",
	}
	for _, in := range inputs {
		var errs []reporter.ErrorWithPos
		h := reporter.NewHandler(reporter.NewReporter(func(err reporter.ErrorWithPos) error {
			errs = append(errs, err)
			return nil
		}, nil))
		_, _ = Parse("t.proto", strings.NewReader(in), h)
		if len(errs) == 0 {
			t.Errorf("input %q: no errors", in)
		}
		for _, e := range errs {
			pos := e.GetPosition()
			want := 1 + strings.Count(in[:pos.Offset], "\n")
			if pos.Line != want {
				t.Errorf("input %q: error %q at offset %d reported on line %d, want %d", in, e.Unwrap(), pos.Offset, pos.Line, want)
			}
		}
	}
}
