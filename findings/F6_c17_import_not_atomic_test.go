package linker

import (
	"testing"

	"google.golang.org/protobuf/proto"
	"google.golang.org/protobuf/reflect/protodesc"
	"google.golang.org/protobuf/reflect/protoreflect"
	"google.golang.org/protobuf/reflect/protoregistry"
	"google.golang.org/protobuf/types/descriptorpb"

	"github.com/bufbuild/protocompile/reporter"
)

func f6File(t *testing.T, fdp *descriptorpb.FileDescriptorProto, deps ...protoreflect.FileDescriptor) protoreflect.FileDescriptor {
	t.Helper()
	var reg protoregistry.Files
	for _, d := range deps {
		if err := reg.RegisterFile(d); err != nil {
			t.Fatal(err)
		}
	}
	fd, err := protodesc.NewFile(fdp, &reg)
	if err != nil {
		t.Fatal(err)
	}
	return fd
}

func msg(name string) *descriptorpb.DescriptorProto {
	return &descriptorpb.DescriptorProto{Name: proto.String(name)}
}

// Known finding F6 (property C17): a failed Import leaves the table changed.
// Each sub-test demonstrates one failing return site; the test FAILS on the current code.
func TestF6ImportNotAtomic(t *testing.T) {
	t.Run("packages_stay_registered", func(t *testing.T) {
		// main.proto (package zz.yy, both components new) depends on dep.proto, whose symbol
		// p.Dup collides: Import(main) fails, but packages "zz" and "zz.yy" stay registered.
		var s Symbols
		first := f6File(t, &descriptorpb.FileDescriptorProto{Name: proto.String("first.proto"), Package: proto.String("p"), MessageType: []*descriptorpb.DescriptorProto{msg("Dup")}})
		if err := s.Import(first, reporter.NewHandler(nil)); err != nil {
			t.Fatal(err)
		}
		dep := f6File(t, &descriptorpb.FileDescriptorProto{Name: proto.String("dep.proto"), Package: proto.String("p"), MessageType: []*descriptorpb.DescriptorProto{msg("Dup")}})
		main := f6File(t, &descriptorpb.FileDescriptorProto{Name: proto.String("main.proto"), Package: proto.String("zz.yy"), Dependency: []string{"dep.proto"}, MessageType: []*descriptorpb.DescriptorProto{msg("M")}}, dep)
		if err := s.Import(main, reporter.NewHandler(nil)); err == nil {
			t.Fatal("expected collision on p.Dup in the dependency")
		}
		// observable: a root-package message named "zz" now collides with the leftover package
		other := f6File(t, &descriptorpb.FileDescriptorProto{Name: proto.String("other.proto"), MessageType: []*descriptorpb.DescriptorProto{msg("zz")}})
		if err := s.Import(other, reporter.NewHandler(nil)); err != nil {
			t.Errorf("failed Import left package symbol zz in the table: %v", err)
		}
	})
	t.Run("dependency_imported_although_import_failed", func(t *testing.T) {
		var s Symbols
		h := reporter.NewHandler(nil)
		first := f6File(t, &descriptorpb.FileDescriptorProto{Name: proto.String("first.proto"), Package: proto.String("p"), MessageType: []*descriptorpb.DescriptorProto{msg("Dup")}})
		if err := s.Import(first, h); err != nil {
			t.Fatal(err)
		}
		dep := f6File(t, &descriptorpb.FileDescriptorProto{Name: proto.String("dep.proto"), Package: proto.String("depkg"), MessageType: []*descriptorpb.DescriptorProto{msg("D")}})
		main := f6File(t, &descriptorpb.FileDescriptorProto{Name: proto.String("main.proto"), Package: proto.String("p"), Dependency: []string{"dep.proto"}, MessageType: []*descriptorpb.DescriptorProto{msg("Dup")}}, dep)
		if err := s.Import(main, reporter.NewHandler(nil)); err == nil {
			t.Fatal("expected collision on p.Dup")
		}
		if span := s.Lookup("depkg.D"); span != nil {
			t.Errorf("failed Import left symbol depkg.D (from a dependency) in the table")
		}
	})
	t.Run("extension_collision_after_commit", func(t *testing.T) {
		var s Symbols
		h := reporter.NewHandler(nil)
		base := f6File(t, &descriptorpb.FileDescriptorProto{Name: proto.String("base.proto"), Package: proto.String("base"), Syntax: proto.String("proto2"),
			MessageType: []*descriptorpb.DescriptorProto{{Name: proto.String("M"), ExtensionRange: []*descriptorpb.DescriptorProto_ExtensionRange{{Start: proto.Int32(100), End: proto.Int32(200)}}}}})
		ext := func(file, pkg, name string) protoreflect.FileDescriptor {
			return f6File(t, &descriptorpb.FileDescriptorProto{Name: proto.String(file), Package: proto.String(pkg), Syntax: proto.String("proto2"), Dependency: []string{"base.proto"},
				MessageType: []*descriptorpb.DescriptorProto{msg("Own" + name)},
				Extension: []*descriptorpb.FieldDescriptorProto{{Name: proto.String(name), Number: proto.Int32(100), Extendee: proto.String(".base.M"), Type: descriptorpb.FieldDescriptorProto_TYPE_INT32.Enum(), Label: descriptorpb.FieldDescriptorProto_LABEL_OPTIONAL.Enum()}}}, base)
		}
		if err := s.Import(ext("e1.proto", "e1", "x1"), h); err != nil {
			t.Fatal(err)
		}
		e2 := ext("e2.proto", "e2", "x2")
		if err := s.Import(e2, reporter.NewHandler(nil)); err == nil {
			t.Fatal("expected extension tag collision")
		}
		if span := s.Lookup("e2.Ownx2"); span != nil {
			t.Errorf("failed Import left symbol e2.Ownx2 in the table")
		}
		if err := s.Import(e2, reporter.NewHandler(nil)); err == nil {
			t.Errorf("importing the same file again does not report the collision again")
		}
	})
}
