#!/usr/bin/env python3
# usage: tools_baseline.py [pkg...]  -- runs go test in /repo and lists failing tests that are baseline-stable
import json,subprocess,sys,os
base=set(json.load(open('/root/.vp/BASELINE.json'))['stable_pass'])
pk=sys.argv[1:] or ['./...']
env=dict(os.environ); env['GOPROXY']='off'; env.pop('GOFLAGS',None); env.pop('GOTOOLCHAIN',None)
p=subprocess.run('go test -vet=off -count=1 -json -timeout 25m '+' '.join(pk),shell=True,cwd='/repo',capture_output=True,text=True,env=env)
bad=[];npass=0
for l in p.stdout.split('\n'):
    try: e=json.loads(l)
    except Exception: continue
    if e.get('Test'):
        k=e['Package']+'::'+e['Test']
        if e.get('Action')=='fail' and k in base: bad.append(k)
        if e.get('Action')=='pass' and k in base: npass+=1
print('baseline-stable passing:',npass,'failing:',len(bad)); print('\n'.join(bad[:20]))
