#!/usr/bin/env python3
# Validates independently produced seeded changes in a scratch worktree of /repo HEAD and files
# the confirmed ones under /verif/seeded/<name>/ (patch.diff, demo, meta.json).
import json,os,subprocess,sys,shutil,glob,re
WT='/tmp/wt-seedval'
def sh(cmd,cwd=WT,timeout=1500):
    env=dict(os.environ); env['GOPROXY']='off'; env.pop('GOFLAGS',None); env.pop('GOTOOLCHAIN',None)
    p=subprocess.run(cmd,shell=True,cwd=cwd,capture_output=True,text=True,timeout=timeout,env=env)
    return p.returncode,(p.stdout+p.stderr)
base=set(json.load(open('/root/.vp/BASELINE.json'))['stable_pass'])
def stable_failures(pkgs):
    rc,out=sh('go test -vet=off -count=1 -json -timeout 20m '+' '.join(pkgs))
    bad=[]
    for l in out.split('\n'):
        try: e=json.loads(l)
        except Exception: continue
        if e.get('Test') and e.get('Action')=='fail' and (e['Package']+'::'+e['Test']) in base:
            bad.append(e['Package']+'::'+e['Test'])
    return bad
if not os.path.isdir(WT):
    subprocess.run(['git','-C','/repo','worktree','add','--detach',WT,'HEAD','-q'],check=True)
seeds=sys.argv[1:]
for sd in seeds:
    name=os.path.basename(sd.rstrip('/'))
    meta=json.load(open(sd+'/meta.json'))
    sh('git checkout -q -- . && git clean -fdq')
    sh('git checkout -q --detach '+subprocess.run(['git','-C','/repo','rev-parse','HEAD'],capture_output=True,text=True).stdout.strip())
    res={'seed':name,'property':meta.get('property'),'breaks':meta.get('breaks'),'needs':meta.get('needs'),'files':meta.get('files'),'origin':'independent sub-agent given only the property text and a scratch worktree','ran':[]}
    rc,out=sh('git apply --check '+sd+'/patch.diff')
    if rc!=0:
        res['status']='patch does not apply to current /repo HEAD: '+out[:300]; print(name,res['status']); json.dump(res,open('/tmp/seedval-'+name+'.json','w'),indent=1); continue
    demo=[f for f in os.listdir(sd) if f.startswith('demo') and f.endswith('.go')]
    pkgdir=meta.get('demo_pkg_dir','.').rstrip('/') or '.'
    m=re.search(r'-run\s+(\S+)',meta.get('demo_run',''))
    runpat=m.group(1).strip("'\"") if m else '.'
    def place():
        for i,f in enumerate(demo):
            shutil.copy(sd+'/'+f, os.path.join(WT,pkgdir,'zz_seeddemo_%d_test.go'%i))
    def unplace():
        for f in glob.glob(os.path.join(WT,pkgdir,'zz_seeddemo_*_test.go')): os.remove(f)
    # without the change: demo passes
    place(); rc0,out0=sh('go test -vet=off -count=1 -timeout 10m -run %s ./%s/'%(runpat,pkgdir)); unplace()
    res['ran'].append('unpatched: demo exit %d'%rc0)
    sh('git apply '+sd+'/patch.diff')
    rcb,outb=sh('go build ./...')
    res['ran'].append('patched: go build ./... exit %d'%rcb)
    place(); rc1,out1=sh('go test -vet=off -count=1 -timeout 10m -run %s ./%s/'%(runpat,pkgdir)); unplace()
    res['ran'].append('patched: demo exit %d: %s'%(rc1,' | '.join([l.strip() for l in out1.split('\n') if 'FAIL' in l or 'Error' in l or 'want' in l][:3])[:400]))
    pk=sorted(set(['./'+os.path.dirname(f)+'/' if os.path.dirname(f) else '.' for f in meta.get('files',[])]+['.']))
    bad=stable_failures(pk+['./internal/...'] if any('internal' in p for p in pk) else pk)
    res['ran'].append('patched: baseline-stable tests failing in %s: %d %s'%(' '.join(pk),len(bad),bad[:3]))
    sh('git checkout -q -- . && git clean -fdq')
    ok = rc0==0 and rcb==0 and rc1!=0 and len(bad)==0
    res['status']='confirmed' if ok else 'NOT confirmed'
    print(name,res['status'],res['ran'])
    if ok:
        d='/verif/seeded/'+name; os.makedirs(d,exist_ok=True)
        shutil.copy(sd+'/patch.diff',d+'/patch.diff')
        for f in demo: shutil.copy(sd+'/'+f,d+'/'+f)
        res['demo_pkg_dir']=pkgdir; res['demo_run']='copy demo*.go to %s/ and run: GOPROXY=off go test -vet=off -count=1 -run %s ./%s/'%(pkgdir,runpat,pkgdir)
        json.dump(res,open(d+'/meta.json','w'),indent=1)
    else:
        json.dump(res,open('/tmp/seedval-'+name+'.json','w'),indent=1)
