package main

import (
	"fmt"
	"strconv"
	"strings"
	"unicode"
)

// ---------------------------------------------------------------------------
// Specification expression AST

type SExpr interface{ String() string }

type (
	SIdent  struct{ Name string }
	SNum    struct{ Val string }
	SBoolL  struct{ Val bool }
	SUnary  struct {
		Op string
		X  SExpr
	}
	SBinary struct {
		Op   string
		X, Y SExpr
	}
	SCond  struct{ C, A, B SExpr }
	SField struct {
		X    SExpr
		Name string
	}
	SIndex struct{ X, I SExpr }
	SSlice struct{ X, Lo, Hi SExpr } // Lo/Hi may be nil
	SCall  struct {
		Fn   string
		Args []SExpr
	}
	SQuant struct {
		Forall bool
		Vars   []string
		Body   SExpr
	}
	SOld struct{ X SExpr }
)

func (e *SIdent) String() string  { return e.Name }
func (e *SNum) String() string    { return e.Val }
func (e *SBoolL) String() string  { return fmt.Sprint(e.Val) }
func (e *SUnary) String() string  { return e.Op + e.X.String() }
func (e *SBinary) String() string { return "(" + e.X.String() + " " + e.Op + " " + e.Y.String() + ")" }
func (e *SCond) String() string {
	return "(" + e.C.String() + " ? " + e.A.String() + " : " + e.B.String() + ")"
}
func (e *SField) String() string { return e.X.String() + "." + e.Name }
func (e *SIndex) String() string { return e.X.String() + "[" + e.I.String() + "]" }
func (e *SSlice) String() string {
	lo, hi := "", ""
	if e.Lo != nil {
		lo = e.Lo.String()
	}
	if e.Hi != nil {
		hi = e.Hi.String()
	}
	return e.X.String() + "[" + lo + ":" + hi + "]"
}
func (e *SCall) String() string {
	var a []string
	for _, x := range e.Args {
		a = append(a, x.String())
	}
	return e.Fn + "(" + strings.Join(a, ", ") + ")"
}
func (e *SQuant) String() string {
	q := "exists"
	if e.Forall {
		q = "forall"
	}
	return "(" + q + " " + strings.Join(e.Vars, ",") + " :: " + e.Body.String() + ")"
}
func (e *SOld) String() string { return "old(" + e.X.String() + ")" }

// ---------------------------------------------------------------------------
// Lexer

type stok struct {
	kind string // "id","num","op","eof"
	s    string
}

func slex(src string) ([]stok, error) {
	var out []stok
	i := 0
	for i < len(src) {
		c := src[i]
		switch {
		case c == ' ' || c == '\t' || c == '\n':
			i++
		case unicode.IsLetter(rune(c)) || c == '_':
			j := i
			for j < len(src) && (unicode.IsLetter(rune(src[j])) || unicode.IsDigit(rune(src[j])) || src[j] == '_' || src[j] == '$') {
				j++
			}
			out = append(out, stok{"id", src[i:j]})
			i = j
		case c >= '0' && c <= '9':
			j := i
			if strings.HasPrefix(src[i:], "0x") || strings.HasPrefix(src[i:], "0X") {
				j += 2
				for j < len(src) && strings.ContainsRune("0123456789abcdefABCDEF", rune(src[j])) {
					j++
				}
				v, err := strconv.ParseUint(src[i+2:j], 16, 64)
				if err != nil {
					return nil, err
				}
				out = append(out, stok{"num", strconv.FormatUint(v, 10)})
			} else {
				for j < len(src) && src[j] >= '0' && src[j] <= '9' {
					j++
				}
				out = append(out, stok{"num", src[i:j]})
			}
			i = j
		case c == '\'':
			// char literal
			j := i + 1
			var v int
			if src[j] == '\\' {
				switch src[j+1] {
				case 'n':
					v = '\n'
				case 't':
					v = '\t'
				case 'r':
					v = '\r'
				case '\\':
					v = '\\'
				case '\'':
					v = '\''
				case '0':
					v = 0
				default:
					return nil, fmt.Errorf("bad char escape in %q", src)
				}
				j += 2
			} else {
				v = int(src[j])
				j++
			}
			if j >= len(src) || src[j] != '\'' {
				return nil, fmt.Errorf("unterminated char literal in %q", src)
			}
			out = append(out, stok{"num", strconv.Itoa(v)})
			i = j + 1
		default:
			ops := []string{"<==>", "==>", "::", "==", "!=", "<=", ">=", "&&", "||", "<<", ">>", "+", "-", "*", "/", "%", "<", ">", "!", "(", ")", "[", "]", ".", ",", ":", "?", "&", "|", "^"}
			found := false
			for _, op := range ops {
				if strings.HasPrefix(src[i:], op) {
					out = append(out, stok{"op", op})
					i += len(op)
					found = true
					break
				}
			}
			if !found {
				return nil, fmt.Errorf("unexpected character %q in spec %q", c, src)
			}
		}
	}
	out = append(out, stok{"eof", ""})
	return out, nil
}

// ---------------------------------------------------------------------------
// Parser

type sparser struct {
	toks []stok
	p    int
	src  string
}

func parseSpec(src string) (e SExpr, err error) {
	toks, err := slex(src)
	if err != nil {
		return nil, err
	}
	ps := &sparser{toks: toks, src: src}
	defer func() {
		if r := recover(); r != nil {
			if pe, ok := r.(parseErr); ok {
				err = fmt.Errorf("spec parse error: %s in %q", string(pe), src)
				return
			}
			panic(r)
		}
	}()
	e = ps.expr()
	if ps.peek().kind != "eof" {
		ps.fail("trailing tokens at %q", ps.peek().s)
	}
	return e, nil
}

type parseErr string

func (ps *sparser) fail(f string, a ...any) { panic(parseErr(fmt.Sprintf(f, a...))) }
func (ps *sparser) peek() stok              { return ps.toks[ps.p] }
func (ps *sparser) next() stok              { t := ps.toks[ps.p]; ps.p++; return t }
func (ps *sparser) isOp(s string) bool      { t := ps.peek(); return t.kind == "op" && t.s == s }
func (ps *sparser) accept(s string) bool {
	if ps.isOp(s) {
		ps.p++
		return true
	}
	return false
}
func (ps *sparser) expect(s string) {
	if !ps.accept(s) {
		ps.fail("expected %q, got %q", s, ps.peek().s)
	}
}

func (ps *sparser) expr() SExpr {
	t := ps.peek()
	if t.kind == "id" && (t.s == "forall" || t.s == "exists") {
		ps.next()
		var vars []string
		for {
			v := ps.next()
			if v.kind != "id" {
				ps.fail("expected bound variable")
			}
			vars = append(vars, v.s)
			if !ps.accept(",") {
				break
			}
		}
		ps.expect("::")
		body := ps.expr()
		return &SQuant{Forall: t.s == "forall", Vars: vars, Body: body}
	}
	c := ps.iff()
	if ps.accept("?") {
		a := ps.expr()
		ps.expect(":")
		b := ps.expr()
		return &SCond{c, a, b}
	}
	return c
}

func (ps *sparser) iff() SExpr {
	x := ps.impl()
	for ps.accept("<==>") {
		y := ps.impl()
		x = &SBinary{"<==>", x, y}
	}
	return x
}

func (ps *sparser) impl() SExpr {
	x := ps.or()
	if ps.accept("==>") {
		// right-assoc; allow quantifier on the right
		var y SExpr
		t := ps.peek()
		if t.kind == "id" && (t.s == "forall" || t.s == "exists") {
			y = ps.expr()
		} else {
			y = ps.impl()
		}
		return &SBinary{"==>", x, y}
	}
	return x
}

func (ps *sparser) or() SExpr {
	x := ps.and()
	for ps.accept("||") {
		y := ps.and()
		x = &SBinary{"||", x, y}
	}
	return x
}

func (ps *sparser) and() SExpr {
	x := ps.cmp()
	for ps.accept("&&") {
		var y SExpr
		t := ps.peek()
		if t.kind == "id" && (t.s == "forall" || t.s == "exists") {
			y = ps.expr()
		} else {
			y = ps.cmp()
		}
		x = &SBinary{"&&", x, y}
	}
	return x
}

func (ps *sparser) cmp() SExpr {
	x := ps.bitor()
	var res SExpr
	for {
		t := ps.peek()
		if t.kind == "op" && (t.s == "==" || t.s == "!=" || t.s == "<" || t.s == "<=" || t.s == ">" || t.s == ">=") {
			ps.next()
			y := ps.bitor()
			c := &SBinary{t.s, x, y}
			if res == nil {
				res = c
			} else {
				res = &SBinary{"&&", res, c}
			}
			x = y
			continue
		}
		break
	}
	if res != nil {
		return res
	}
	return x
}

func (ps *sparser) bitor() SExpr {
	x := ps.add()
	for {
		t := ps.peek()
		if t.kind == "op" && (t.s == "|" || t.s == "^") {
			ps.next()
			y := ps.add()
			x = &SBinary{t.s, x, y}
			continue
		}
		break
	}
	return x
}

func (ps *sparser) add() SExpr {
	x := ps.mul()
	for {
		t := ps.peek()
		if t.kind == "op" && (t.s == "+" || t.s == "-") {
			ps.next()
			y := ps.mul()
			x = &SBinary{t.s, x, y}
			continue
		}
		break
	}
	return x
}

func (ps *sparser) mul() SExpr {
	x := ps.unary()
	for {
		t := ps.peek()
		if t.kind == "op" && (t.s == "*" || t.s == "/" || t.s == "%" || t.s == "<<" || t.s == ">>" || t.s == "&") {
			ps.next()
			y := ps.unary()
			x = &SBinary{t.s, x, y}
			continue
		}
		break
	}
	return x
}

func (ps *sparser) unary() SExpr {
	if ps.accept("!") {
		return &SUnary{"!", ps.unary()}
	}
	if ps.accept("-") {
		return &SUnary{"-", ps.unary()}
	}
	if ps.accept("*") {
		// only meaningful in type expressions: *T
		return &SUnary{"*", ps.unary()}
	}
	return ps.postfix()
}

func (ps *sparser) postfix() SExpr {
	x := ps.primary()
	for {
		switch {
		case ps.accept("."):
			t := ps.next()
			if t.kind != "id" {
				ps.fail("expected field name")
			}
			x = &SField{x, t.s}
		case ps.accept("["):
			if ps.accept(":") {
				hi := ps.expr()
				ps.expect("]")
				x = &SSlice{x, nil, hi}
				continue
			}
			i := ps.expr()
			if ps.accept(":") {
				if ps.accept("]") {
					x = &SSlice{x, i, nil}
					continue
				}
				hi := ps.expr()
				ps.expect("]")
				x = &SSlice{x, i, hi}
				continue
			}
			ps.expect("]")
			x = &SIndex{x, i}
		default:
			return x
		}
	}
}

func (ps *sparser) primary() SExpr {
	t := ps.next()
	switch t.kind {
	case "num":
		return &SNum{t.s}
	case "id":
		if t.s == "true" {
			return &SBoolL{true}
		}
		if t.s == "false" {
			return &SBoolL{false}
		}
		if ps.accept("(") {
			var args []SExpr
			if !ps.accept(")") {
				for {
					args = append(args, ps.expr())
					if ps.accept(")") {
						break
					}
					ps.expect(",")
				}
			}
			if t.s == "old" {
				if len(args) != 1 {
					ps.fail("old takes one argument")
				}
				return &SOld{args[0]}
			}
			return &SCall{t.s, args}
		}
		return &SIdent{t.s}
	case "op":
		if t.s == "(" {
			e := ps.expr()
			ps.expect(")")
			return e
		}
	}
	ps.fail("unexpected token %q", t.s)
	return nil
}
