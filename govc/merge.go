package main

import (
	"go/types"
	"fmt"
	"sort"
	"strings"

	"golang.org/x/tools/go/ssa"
)

// Merged execution: blocks are processed in reverse post-order of the CFG without back edges;
// the states arriving at a join point are merged (guard variable + ite), so the number of
// states is linear in the size of the function instead of exponential in its branches.

type forkOut struct {
	st  *State
	blk *ssa.BasicBlock
}

func rpoNoBackEdges(fn *ssa.Function) []*ssa.BasicBlock {
	seen := map[*ssa.BasicBlock]bool{}
	var post []*ssa.BasicBlock
	var dfs func(b *ssa.BasicBlock)
	dfs = func(b *ssa.BasicBlock) {
		seen[b] = true
		for _, s := range b.Succs {
			if s.Dominates(b) { // back edge
				continue
			}
			if !seen[s] {
				dfs(s)
			}
		}
		post = append(post, b)
	}
	dfs(fn.Blocks[0])
	for i, j := 0, len(post)-1; i < j; i, j = i+1, j-1 {
		post[i], post[j] = post[j], post[i]
	}
	return post
}

func (fv *FuncVerifier) runMerged(st0 *State) {
	fn := fv.fn
	order := rpoNoBackEdges(fn)
	pending := map[*ssa.BasicBlock][]*State{}
	pending[fn.Blocks[0]] = []*State{st0}
	fv.mergeMode = true
	for _, b := range order {
		ins := pending[b]
		if len(ins) == 0 {
			continue
		}
		delete(pending, b)
		// states arriving at a returning block are not merged: the postconditions are checked
		// per incoming state (no continuation follows, and un-merged heaps keep quantifier
		// triggers simple)
		if len(ins) > 1 && isReturnBlock(b) {
			for _, s := range ins {
				pending[b] = []*State{s}
				fv.runReturnBlock(s, b)
			}
			delete(pending, b)
			continue
		}
		st := fv.mergeStates(b, ins)
		if st == nil {
			continue
		}
		// execute the block
		var next *ssa.BasicBlock
		ended := false
		for _, ins := range b.Instrs {
			if _, isPhi := ins.(*ssa.Phi); isPhi {
				continue
			}
			fv.fork = nil
			nb, end := fv.step(st, b, ins)
			if end {
				ended = true
				break
			}
			if nb != nil {
				next = nb
				break
			}
		}
		if ended || next == nil {
			continue
		}
		outs := []forkOut{{st, next}}
		if fv.fork != nil {
			outs = append(outs, *fv.fork)
			fv.fork = nil
		}
		for _, o := range outs {
			if fv.takeEdge(o.st, b, o.blk) {
				o.st.prev = b
				pending[o.blk] = append(pending[o.blk], o.st)
			}
		}
	}
}

func isReturnBlock(b *ssa.BasicBlock) bool {
	if len(b.Instrs) == 0 {
		return false
	}
	if _, ok := b.Instrs[len(b.Instrs)-1].(*ssa.Return); !ok {
		return false
	}
	for _, ins := range b.Instrs {
		switch ins.(type) {
		case *ssa.If, *ssa.Jump:
			return false
		}
	}
	return true
}

func (fv *FuncVerifier) runReturnBlock(st *State, b *ssa.BasicBlock) {
	st = fv.mergeStates(b, []*State{st})
	for _, ins := range b.Instrs {
		if _, isPhi := ins.(*ssa.Phi); isPhi {
			continue
		}
		fv.fork = nil
		_, end := fv.step(st, b, ins)
		if end {
			return
		}
	}
}

// mergeStates merges the states arriving at block b (evaluating phis per incoming edge).
func (fv *FuncVerifier) mergeStates(b *ssa.BasicBlock, ins []*State) *State {
	// phis first, per state
	var phis []*ssa.Phi
	for _, in := range b.Instrs {
		if p, ok := in.(*ssa.Phi); ok {
			phis = append(phis, p)
		} else {
			break
		}
	}
	for _, st := range ins {
		if len(phis) == 0 {
			break
		}
		idx := -1
		for i, p := range b.Preds {
			if p == st.prev {
				idx = i
			}
		}
		if idx < 0 {
			panic("phi without predecessor")
		}
		vals := make([]Value, len(phis))
		for i, p := range phis {
			vals[i] = st.get(p.Edges[idx])
		}
		for i, p := range phis {
			st.regs[p] = vals[i]
		}
	}
	m := ins[0]
	for _, s := range ins[1:] {
		m = fv.merge2(m, s)
	}
	return m
}

func sameTerms(a, b []Term) bool {
	if len(a) != len(b) {
		return false
	}
	for i := range a {
		if a[i].S != b[i].S {
			return false
		}
	}
	return true
}

func (fv *FuncVerifier) mergeValue(g Term, a, b Value, what string) Value {
	if a.Place != nil || b.Place != nil || a.Clo != nil || b.Clo != nil {
		if a.Place != nil && b.Place != nil && *a.Place == *b.Place {
			return a
		}
		if a.Clo != nil && b.Clo != nil && a.Clo.Fn == b.Clo.Fn {
			return a
		}
		panic(unsupported("merging different local pointers/closures at a join point (" + what + ")"))
	}
	if len(a.L) != len(b.L) {
		panic(fmt.Sprintf("merge: leaf count mismatch for %s", what))
	}
	if sameTerms(a.L, b.L) {
		return a
	}
	r := Value{Typ: a.Typ, SpecSl: a.SpecSl}
	for i := range a.L {
		r.L = append(r.L, iteSameBase(g, a.L[i], b.L[i]))
	}
	switch {
	case a.Guard != nil && b.Guard != nil:
		if a.Guard.Field != b.Guard.Field || a.Guard.Lock != b.Guard.Lock {
			panic(unsupported("merging values loaded from different guarded fields (" + what + ")"))
		}
		r.Guard = &guardSrc{Field: a.Guard.Field, Lock: a.Guard.Lock, Obj: Ite(g, a.Guard.Obj, b.Guard.Obj), Owner: Ite(g, a.Guard.Owner, b.Guard.Owner)}
	case a.Guard != nil:
		r.Guard = a.Guard
	case b.Guard != nil:
		r.Guard = b.Guard
	}
	return r
}

// iteSameBase: ite(g, base+da, base+db) is written base + ite(g, da, db) so that slice offsets
// keep a common accessor base (see peelOffset).
func iteSameBase(g, x, y Term) Term {
	if x.Sort == SInt && x.S != y.S {
		bx, dx := peelOffset(x, I(0))
		by, dy := peelOffset(y, I(0))
		if bx.S == by.S && bx.S != "0" && (dx.S != "0" || dy.S != "0") {
			return Add(bx, Ite(g, dx, dy))
		}
	}
	return Ite(g, x, y)
}

func (fv *FuncVerifier) merge2(a, b *State) *State {
	enc := fv.enc
	// a variable that holds the address of a local object on one side and an ordinary reference
	// on the other: the local object escapes (becomes a heap object) so that both are references
	for c, vb := range b.cells {
		va, ok := a.cells[c]
		if !ok {
			continue
		}
		if va.Place != nil && va.Place.Kind == PLocal && vb.Place == nil && vb.Clo == nil {
			a.cells[c] = a.promote(va)
		} else if vb.Place != nil && vb.Place.Kind == PLocal && va.Place == nil && va.Clo == nil {
			b.cells[c] = b.promote(vb)
		}
	}
	// an object that has become a heap object on one side only (e.g. before a loop that one of
	// the two paths went through): it becomes one on the other side as well
	promoteIn := func(dst, src *State) {
		for c := range src.promoted {
			if _, done := dst.promoted[c]; done {
				continue
			}
			cv, exists := dst.cells[c]
			if !exists || cv.Place != nil || cv.Clo != nil {
				continue
			}
			func() {
				defer func() { _ = recover() }()
				dst.promote(Value{Typ: types.NewPointer(cv.Typ), L: []Term{I(0)}, Place: &Place{Kind: PLocal, Typ: cv.Typ, Cell: c}})
			}()
		}
	}
	promoteIn(a, b)
	promoteIn(b, a)
	g := enc.fresh("join", SBool)
	m := a.clone()
	// path conditions: common prefix + guarded suffixes
	k := 0
	for k < len(a.pc) && k < len(b.pc) && a.pc[k].S == b.pc[k].S {
		k++
	}
	m.pc = append([]Term(nil), a.pc[:k]...)
	m.pc = append(m.pc, Implies(g, And(a.pc[k:]...)), Implies(Not(g), And(b.pc[k:]...)))
	// registers: union; registers live on both sides with different values cannot exist in SSA
	// except phis (already evaluated per edge)
	for r, vb := range b.regs {
		va, ok := m.regs[r]
		if !ok {
			m.regs[r] = vb
			continue
		}
		if !sameTerms(va.L, vb.L) {
			m.regs[r] = fv.mergeValue(g, va, vb, "register "+r.Name())
		}
	}
	// local cells
	for c, vb := range b.cells {
		va, ok := a.cells[c]
		if !ok {
			m.cells[c] = vb
			continue
		}
		m.cells[c] = fv.mergeValue(g, va, vb, "variable "+c.Name())
	}
	// promoted cells
	for c, rb := range b.promoted {
		ra, ok := a.promoted[c]
		if !ok {
			if _, exists := a.cells[c]; exists {
				panic(unsupported("local escapes on one side of a join only"))
			}
			// the object exists only on side b
			m.promoted[c] = rb
			continue
		}
		if ra.S != rb.S {
			m.promoted[c] = Ite(g, ra, rb)
		}
	}
	for c := range a.promoted {
		if _, ok := b.promoted[c]; !ok {
			if _, exists := b.cells[c]; exists {
				panic(unsupported("local escapes on one side of a join only"))
			}
		}
	}
	// heap
	if a.epoch != b.epoch || !sameIntMap(a.prefEp, b.prefEp) {
		// different havoc histories: arrays nobody has touched yet get, when first touched, a
		// version at a "merge epoch" defined as ite(g, version on side a, version on side b)
		enc.epochCtr++
		E := enc.epochCtr
		enc.mergeEpochs[E] = &mergeEp{g: g, aEpoch: a.epoch, bEpoch: b.epoch, aPref: copyIntMap(a.prefEp), bPref: copyIntMap(b.prefEp)}
		m.prefEp = map[string]int{}
		if a.epoch != b.epoch {
			m.epoch = E // one side lost the whole heap
		} else {
			for p := range a.prefEp {
				m.prefEp[p] = E
			}
			for p := range b.prefEp {
				m.prefEp[p] = E
			}
		}
		hw := Ite(g, a.hwm, b.hwm)
		nh := enc.fresh("hwm", SInt)
		m.assume(Eq(nh, hw))
		enc.epochHwm[E] = nh
	}
	m.heap = map[string]Term{}
	keys := map[string]bool{}
	for n := range a.heap {
		keys[n] = true
	}
	for n := range b.heap {
		keys[n] = true
	}
	var sorted []string
	for n := range keys {
		sorted = append(sorted, n)
	}
	sort.Strings(sorted)
	for _, n := range sorted {
		ta, oka := a.heap[n]
		tb, okb := b.heap[n]
		if !oka {
			ta = a.heapArr(n, tb.Sort)
		}
		if !okb {
			tb = b.heapArr(n, ta.Sort)
		}
		if ta.S == tb.S {
			m.heap[n] = ta
			continue
		}
		nv := enc.fresh(n, ta.Sort)
		m.assume(Eq(nv, Ite(g, ta, tb)))
		m.heap[n] = nv
	}
	if a.hwm.S != b.hwm.S {
		nh := enc.fresh("hwm", SInt)
		m.assume(Eq(nh, Ite(g, a.hwm, b.hwm)))
		m.hwm = nh
	}
	// deferred calls must agree
	if len(a.defers) != len(b.defers) {
		panic(unsupported("different deferred calls at a join point"))
	}
	for i := range a.defers {
		if a.defers[i].call != b.defers[i].call {
			panic(unsupported("different deferred calls at a join point"))
		}
	}
	// loop bookkeeping
	for h := range b.inLoop {
		m.inLoop[h] = true
	}
	for h, d := range b.decr {
		if da, ok := a.decr[h]; ok && da.S != d.S {
			m.decr[h] = Ite(g, da, d)
		} else if !ok {
			m.decr[h] = d
		}
	}
	for r, p := range b.rangePos {
		if pa, ok := a.rangePos[r]; ok && pa.S != p.S {
			m.rangePos[r] = Ite(g, pa, p)
		} else if !ok {
			m.rangePos[r] = p
		}
	}
	// last guarded reads: keep every record; where both sides have one, select by the guard
	for k, rb := range b.lastRead {
		if ra, ok := a.lastRead[k]; ok && ra.S != rb.S {
			m.lastRead[k] = Ite(g, ra, rb)
		} else if !ok {
			m.lastRead[k] = Ite(g, I(-1), rb) // -1: no read on that side
		}
	}
	for k, ra := range a.lastRead {
		if _, ok := b.lastRead[k]; !ok {
			m.lastRead[k] = Ite(g, ra, I(-1))
		}
	}
	for c, s := range b.allocSeq {
		if s > m.allocSeq[c] {
			m.allocSeq[c] = s
		}
	}
	if b.seq > m.seq {
		m.seq = b.seq
	}
	m.trace = append(m.trace, "join")
	m.prev = nil
	_ = strings.TrimSpace
	return m
}

func copyIntMap(a map[string]int) map[string]int {
	m := make(map[string]int, len(a))
	for k, v := range a {
		m[k] = v
	}
	return m
}

func sameIntMap(a, b map[string]int) bool {
	if len(a) != len(b) {
		return false
	}
	for k, v := range a {
		if b[k] != v {
			return false
		}
	}
	return true
}
