package main

import (
	"encoding/json"
	"flag"
	"fmt"
	"os"
	"os/exec"
	"path/filepath"
	"regexp"
	"sort"
	"strconv"
	"strings"
	"time"
)

type Finding struct {
	Status     string `json:"status"` // "known" or "fixed"
	Property   string `json:"property"`
	ID         string `json:"id"`
	Function   string `json:"function,omitempty"`   // suffix of the SSA function name
	Obligation string `json:"obligation,omitempty"` // obligation base name
	Part       string `json:"part,omitempty"`       // substring of the failing conjunct (optional)
	Check      string `json:"check,omitempty"`      // for bounded checks: name of the failing case
	What       string `json:"what"`
	Witness    string `json:"witness,omitempty"`
	Commit     string `json:"commit,omitempty"`
}

type FindingsFile struct {
	Findings []Finding `json:"findings"`
}

func loadFindings(verif string) []Finding {
	var ff FindingsFile
	b, err := os.ReadFile(filepath.Join(verif, "known_findings.json"))
	if err != nil {
		return nil
	}
	if err := json.Unmarshal(b, &ff); err != nil {
		fmt.Fprintln(os.Stderr, "known_findings.json:", err)
		os.Exit(2)
	}
	return ff.Findings
}

type failure struct {
	Fn, Ob, Kind, Src, Pos, Status, Part, Model, Output string
	Tried                                                []string
	Err                                                  string
}

func (f failure) key() string { return shortName(f.Fn) + "__" + baseName(f.Ob) }

func matchFinding(fs []Finding, prop string, f failure) *Finding {
	for i := range fs {
		k := &fs[i]
		if k.Status != "known" || k.Property != prop {
			continue
		}
		if k.Function != "" && !strings.HasSuffix(f.Fn, k.Function) {
			continue
		}
		if k.Obligation != "" && baseName(f.Ob) != k.Obligation {
			continue
		}
		if k.Part != "" && !strings.Contains(f.Part, k.Part) {
			continue
		}
		if k.Function == "" && k.Obligation == "" {
			continue
		}
		return k
	}
	return nil
}

type propCfg struct {
	Level       string   // evidence level
	Bounded     []string // bounded harnesses (names under /verif/bounded) run in this check
	Undecided   string
	WitnessPkg  string // package dir (relative to repo) for the witness-search harness
	WitnessFile string // template under /verif/witness
}

var propConfigs = map[string]propCfg{}

// propKinds: for properties that share a contract set with another property, the obligation
// kinds that belong to this property's check (the others are decided by the other check).
var propKinds = map[string]map[string]bool{
	// C16: data-race freedom = lock-set obligations (guarded-by accesses, lock/unlock state,
	// preconditions of *Locked helpers and callbacks)
	"C16": {"guard": true, "lock": true, "pre": true, "binding": true},
	// C17: frame/postcondition obligations of the same functions
	"C17": {"post": true, "frame": true, "pre": true, "inv-init": true, "inv-keep": true, "decr": true, "binding": true},
}

func cmdCheck(args []string) {
	if len(args) < 1 {
		fmt.Fprintln(os.Stderr, "usage: govc check <ID> [--tier quick|thorough] [--replay path]")
		os.Exit(2)
	}
	id := args[0]
	fs := flag.NewFlagSet("check", flag.ExitOnError)
	tier := fs.String("tier", "quick", "quick|thorough")
	repo := fs.String("repo", "/repo", "repository root")
	verif := fs.String("verif", "/verif", "verif root")
	replay := fs.String("replay", "", "re-run the reproduction described by a replay file")
	out := fs.String("out", "", "directory for evidence/ and replays/ (default: the verif root)")
	jobs := fs.Int("j", 16, "parallel solver jobs")
	fs.Parse(args[1:])
	if t := os.Getenv("VERIF_TIER"); t != "" && !flagSet(fs, "tier") {
		*tier = t
	}
	seed := 0
	if s := os.Getenv("VERIF_SEED"); s != "" {
		seed, _ = strconv.Atoi(s)
	}
	if *replay != "" {
		os.Exit(runReplay(*replay, *repo, *verif))
	}
	outDir = *out
	if outDir == "" {
		outDir = *verif
	}
	os.Exit(runCheck(id, *tier, *repo, *verif, seed, *jobs))
}

func flagSet(fs *flag.FlagSet, name string) bool {
	set := false
	fs.Visit(func(f *flag.Flag) {
		if f.Name == name {
			set = true
		}
	})
	return set
}

type obSample struct {
	Function   string  `json:"function"`
	Obligation string  `json:"obligation"`
	Kind       string  `json:"kind"`
	Backend    string  `json:"backend"`
	Seconds    float64 `json:"solver_seconds"`
	Clause     string  `json:"clause,omitempty"`
}

func runCheck(id, tier, repo, verif string, seed, jobs int) int {
	t0 := time.Now()
	solverSeed = seed
	o := RunOpts{Repo: repo, Verif: verif, Props: map[string]bool{id: true}, Timeout: 20, Portfolio: []string{"z3-new", "z3", "cvc5"}, Jobs: jobs, MaxPaths: 20000}
	if tier == "thorough" {
		edgeCover = true // informational branch-reachability canaries (evidence: coverage.unreachable_branches)
		o.Timeout = 120
		o.CrossCheck = true
	}
	o.Kinds = propKinds[id]
	findings := loadFindings(verif)
	o.SkipRetry = func(fn, ob string) bool {
		for _, k := range findings {
			if k.Status == "known" && k.Property == id && k.Obligation != "" && baseName(ob) == k.Obligation && strings.HasSuffix(fn, k.Function) {
				return true
			}
		}
		return false
	}
	var fails []failure
	var rr *RunResult
	nFuncs, nLemmas := 0, 0
	hasContracts := false
	{
		var err error
		rr, err = runVerification(o)
		if err != nil {
			fmt.Println("govc: cannot load/verify:", err)
			fails = append(fails, failure{Fn: "(load)", Ob: "load", Kind: "load", Err: err.Error(), Status: "error"})
		}
	}
	byBackend := map[string]int{}
	backendSec := map[string]float64{}
	var samples []obSample
	total, discharged, canaries, canariesOK, skipped := 0, 0, 0, 0, 0
	crossTried, crossConfirmed := 0, 0
	assumed := map[string]bool{}
	havoc := map[string]bool{}
	var funcs []string
	if rr != nil {
		defer os.RemoveAll(rr.Dir)
		for _, fr := range rr.Results {
			hasContracts = true
			if strings.HasPrefix(fr.Fn, "lemma ") {
				nLemmas++
			} else {
				nFuncs++
			}
			funcs = append(funcs, shortName(fr.Fn))
			for _, e := range fr.Errs {
				fails = append(fails, failure{Fn: fr.Fn, Ob: "binding", Kind: "binding", Err: e, Status: "error"})
			}
			if fr.Enc != nil {
				for k := range fr.Enc.assumedUsed {
					assumed[k] = true
				}
				for k := range fr.Enc.havocAllCalls {
					havoc[k] = true
				}
			}
			bad := judge(fr)
			for _, ob := range fr.Obs {
				if ob.Cover {
					canaries++
					if ob.OK {
						canariesOK++
					}
					continue
				}
				if ob.Skipped {
					skipped++
					continue
				}
				total++
				if ob.OK {
					discharged++
					be := ob.Result.Solver
					if strings.HasPrefix(be, "split(") {
						be = "split"
					}
					byBackend[be]++
					backendSec[be] += ob.Result.Seconds
					if c := ob.Result.Confirm; c != "" {
						crossTried++
						if strings.HasSuffix(c, ":unsat") {
							crossConfirmed++
						}
					}
					if len(samples) < 40 || (total%37 == 0 && len(samples) < 80) {
						samples = append(samples, obSample{shortName(fr.Fn), ob.Name, ob.Kind, ob.Result.Solver, round3(ob.Result.Seconds), truncate(ob.Src, 160)})
					}
				}
			}
			for _, ob := range bad {
				f := failure{Fn: fr.Fn, Ob: ob.Name, Kind: ob.Kind, Src: ob.Src, Pos: ob.Pos}
				if ob.Result != nil {
					f.Status, f.Part, f.Model, f.Output, f.Tried = ob.Result.Status, ob.Result.Part, ob.Result.Model, ob.Result.Output, ob.Result.Tried
				}
				if ob.Cover {
					f.Kind = "vacuity"
				}
				fails = append(fails, f)
			}
		}
	}
	// bounded stand-ins registered for this property
	bres := runBounded(id, tier, repo, verif, seed)
	if !hasContracts && rr != nil && len(bres) == 0 {
		fails = append(fails, failure{Fn: "(contracts)", Ob: "no-contracts", Kind: "binding", Err: "no contract is tagged with property " + id + " (zero obligations would be a vacuous pass)", Status: "error"})
	}
	violations := 0
	known := 0
	knownObs := 0
	printedKnown := map[string]bool{}
	if outDir == "" {
		outDir = verif
	}
	replayDir := filepath.Join(outDir, "replays", id)
	for _, f := range fails {
		if k := matchFinding(findings, id, f); k != nil {
			fmt.Printf("KNOWN-FINDING: property=%s %s [%s %s] %s\n", id, k.ID, shortName(f.Fn), baseName(f.Ob), k.What)
			known++
			if f.Kind != "binding" && f.Kind != "vacuity" && f.Kind != "load" {
				knownObs++
			}
			continue
		}
		violations++
		os.MkdirAll(replayDir, 0o755)
		path := filepath.Join(replayDir, sanitize(f.key())+".json")
		w := searchWitness(id, f, repo, verif)
		rec := map[string]any{
			"property": id, "function": f.Fn, "obligation": f.Ob, "kind": f.Kind, "clause": f.Src, "position": f.Pos,
			"solver_status": f.Status, "failing_part": f.Part, "solver_portfolio": f.Tried, "solver_output": truncate(f.Output, 4000),
			"model": truncate(f.Model, 20000), "error": f.Err, "witness": w,
			"how_to_replay": fmt.Sprintf("cd /verif && ./check %s --replay %s", id, path),
		}
		b, _ := json.MarshalIndent(rec, "", " ")
		os.WriteFile(path, b, 0o644)
		suffix := ""
		if w == nil || !w.Found {
			suffix = " no-failing-input-found"
		}
		fmt.Printf("VIOLATION property=%s replay=%s%s\n", id, path, suffix)
		fmt.Printf("  failed obligation: %s in %s  [%s]  %s\n", f.Ob, shortName(f.Fn), f.Status, truncate(firstNonEmpty(f.Err, f.Src), 200))
		if f.Part != "" {
			fmt.Printf("  failing part: %s\n", truncate(f.Part, 300))
		}
		if w != nil && w.Found {
			fmt.Printf("  reproduced on the real code: %s\n", truncate(w.Detail, 300))
		}
	}
	for _, b := range bres {
		for _, bf := range b.Failures {
			f := failure{Fn: "(bounded)" + b.Name, Ob: bf.Case, Kind: "bounded", Src: bf.Detail}
			matched := false
			for i := range findings {
				k := &findings[i]
				if k.Status == "known" && k.Property == id && k.Check != "" && k.Check == bf.Case {
					if !printedKnown[k.ID] {
						printedKnown[k.ID] = true
						fmt.Printf("KNOWN-FINDING: property=%s %s [bounded %s] %s\n", id, k.ID, bf.Case, k.What)
						known++
					}
					matched = true
					break
				}
			}
			if matched {
				continue
			}
			violations++
			os.MkdirAll(replayDir, 0o755)
			path := filepath.Join(replayDir, sanitize("bounded__"+b.Name+"__"+bf.Case)+".json")
			rec := map[string]any{"property": id, "bounded_check": b.Name, "case": bf.Case, "failing_input": bf.Detail, "how_to_replay": fmt.Sprintf("cd /verif && ./check %s --replay %s", id, path), "witness": map[string]any{"found": true, "detail": bf.Detail}}
			bb, _ := json.MarshalIndent(rec, "", " ")
			os.WriteFile(path, bb, 0o644)
			fmt.Printf("VIOLATION property=%s replay=%s\n", id, path)
			fmt.Printf("  bounded check %s failed: %s: %s\n", b.Name, bf.Case, truncate(bf.Detail, 300))
			_ = f
		}
	}
	// evidence
	cfg := propConfigs[id]
	level := "proof"
	if total == 0 && len(bres) > 0 {
		level = "exploration"
	}
	_ = cfg
	var trusted []string
	trusted = append(trusted, "go/types + go/ssa (x/tools v0.50.0) build the IR of /repo's working tree faithfully",
		"govc's translation of SSA to verification conditions (DESIGN.md 2.3/2.4): mathematical integers for int/int64 (no overflow), sized integers wrap, heap as arrays, well-typed-memory axioms",
		"SMT solvers z3 4.8.12 / z3 5.1.0 / cvc5 1.0 (an obligation counts as discharged on the first 'unsat')",
		"sync.Mutex/RWMutex give mutual exclusion; goroutines/channels are not modelled")
	for _, k := range sortedKeys(assumed) {
		trusted = append(trusted, "assumed contract: "+k)
	}
	for _, k := range sortedKeys(havoc) {
		trusted = append(trusted, "call without contract (treated as modifying the whole heap): "+k)
	}
	be := map[string]any{}
	for k, n := range byBackend {
		be[k] = map[string]any{"obligations": n, "solver_seconds": round3(backendSec[k])}
	}
	sort.Strings(funcs)
	cov := map[string]any{
		// obligations that fail only because of a recorded known finding are reported separately
		// (known_findings_hit) and are not part of the proved set
		"obligations": total - knownObs, "discharged": discharged,
		"checker_cmd":  fmt.Sprintf("/verif/bin/govc check %s --tier %s  (VC generation over go/ssa of /repo, then z3-new|z3|cvc5 per obligation)", id, tier),
		"trusted_base": trusted,
		"functions_under_contract": funcs, "functions": nFuncs, "lemmas": nLemmas,
		"by_backend": be, "vacuity_canaries": canaries, "vacuity_canaries_ok": canariesOK,
		"known_findings_hit": known, "samples": samples,
		"obligations_of_other_properties_skipped": skipped,
	}
	if o.CrossCheck {
		sort.Strings(unreachableBranches)
		cov["unreachable_branches"] = map[string]any{"rule": "for every conditional branch of every function under contract (outside inlined callees) the solver is asked whether each side can be reached under the precondition and the invariants in force; a side it refutes is listed here: defensive code (panic guards the contracts prove dead, nil-receiver branches excluded by a precondition) or, if unexpected, a contradiction in the assumptions. Informational: a listed branch is not a failure", "refuted": unreachableBranches}
		cov["cross_check"] = map[string]any{"rule": "every obligation discharged by an SMT solver is put to a second, different solver (cvc5 after z3, z3 5.1.0 after cvc5) for 15 s; a contradicting 'sat' makes the obligation fail, a timeout/unknown of the second solver is only counted", "put_to_second_solver": crossTried, "confirmed_unsat_by_second_solver": crossConfirmed}
	}
	if rr != nil {
		cov["load_seconds"] = round3(rr.Loaded.LoadSeconds)
		cov["vc_seconds"] = round3(rr.VCSeconds)
		cov["solve_wall_seconds"] = round3(rr.SolveSeconds)
	}
	if len(bres) > 0 {
		var bl []any
		evals, distinct := 0, 0
		for _, b := range bres {
			bl = append(bl, map[string]any{"name": b.Name, "label": "bounded (not a proof)", "evaluations": b.Evaluations, "distinct_nontrivial": b.Distinct, "rule": b.Rule, "exhaustive": b.Exhaustive, "bound": b.Bound, "samples": b.Samples, "failures": len(b.Failures), "wall_s": round3(b.Wall)})
			evals += b.Evaluations
			distinct += b.Distinct
		}
		cov["bounded"] = bl
		if level == "exploration" {
			cov["evaluations"] = evals
			cov["distinct_nontrivial"] = distinct
			cov["rule"] = bres[0].Rule
			var ss []any
			for _, b := range bres {
				for _, s := range b.Samples {
					ss = append(ss, s)
				}
			}
			cov["samples"] = ss
			cov["exhaustive"] = bres[0].Exhaustive
		}
	}
	ev := map[string]any{
		"property_id": id, "tier": tier, "seed": seed, "level": level, "coverage": cov,
		"assumptions": trusted, "wall_s": round3(time.Since(t0).Seconds()), "violations": violations,
	}
	os.MkdirAll(filepath.Join(outDir, "evidence"), 0o755)
	b, _ := json.MarshalIndent(ev, "", " ")
	if err := os.WriteFile(filepath.Join(outDir, "evidence", id+".json"), b, 0o644); err != nil {
		fmt.Println("cannot write evidence:", err)
		return 2
	}
	fmt.Printf("%s %s: %d/%d obligations discharged, %d functions + %d lemmas under contract, %d canaries ok, %d known finding(s), %d violation(s), %.1fs\n",
		id, tier, discharged, total, nFuncs, nLemmas, canariesOK, known, violations, time.Since(t0).Seconds())
	if violations > 0 {
		return 1
	}
	return 0
}

func firstNonEmpty(a ...string) string {
	for _, s := range a {
		if s != "" {
			return s
		}
	}
	return ""
}

func round3(f float64) float64 { return float64(int(f*1000+0.5)) / 1000 }

var solverSeed int
var outDir string

// ---------------------------------------------------------------------------
// witness search / replay on the real code

type Witness struct {
	Found  bool   `json:"found"`
	Detail string `json:"detail"`
	Cmd    string `json:"cmd,omitempty"`
	Output string `json:"output,omitempty"`
}

var witnessRe = regexp.MustCompile(`(?m)^\s*(?:\S+: )?WITNESS: (.*)$`)

// witness harnesses: /verif/witness/<ID>.json lists {pkg: "parser", file: "C12_test.go"} entries;
// each is a Go test injected with -overlay that searches for a concrete input violating the
// property statement on the real code and prints "WITNESS: <input>" lines.
type witnessSpec struct {
	Pkg  string `json:"pkg"`
	File string `json:"file"`
	Run  string `json:"run"`
}

func loadWitnessSpecs(id, verif string) []witnessSpec {
	b, err := os.ReadFile(filepath.Join(verif, "witness", id+".json"))
	if err != nil {
		return nil
	}
	var ws []witnessSpec
	json.Unmarshal(b, &ws)
	return ws
}

var witnessCache = map[string]*Witness{}

func searchWitness(id string, f failure, repo, verif string) *Witness {
	if w, ok := witnessCache[id]; ok {
		return w
	}
	specs := loadWitnessSpecs(id, verif)
	if len(specs) == 0 {
		return nil
	}
	w := &Witness{}
	for _, sp := range specs {
		out, cmd := runOverlayTest(repo, sp.Pkg, filepath.Join(verif, "witness", sp.File), sp.Run, 120)
		w.Cmd = cmd
		if m := witnessRe.FindAllStringSubmatch(out, 5); len(m) > 0 {
			w.Found = true
			var ds []string
			for _, x := range m {
				ds = append(ds, x[1])
			}
			w.Detail = strings.Join(ds, " | ")
			w.Output = truncate(out, 3000)
			break
		}
		w.Output = truncate(out, 1500)
	}
	witnessCache[id] = w
	return w
}

// runOverlayTest injects testFile into repo/pkg as zz_verif_<name>_test.go (nothing is written
// into the repository) and runs it.
func runOverlayTest(repo, pkg, testFile, run string, timeoutSec int) (string, string) {
	tmp, err := os.MkdirTemp("", "govc-ov-")
	if err != nil {
		return err.Error(), ""
	}
	defer os.RemoveAll(tmp)
	target := filepath.Join(repo, pkg, "zz_verif_"+strings.TrimSuffix(filepath.Base(testFile), ".go")+".go")
	if !strings.HasSuffix(target, "_test.go") {
		target = strings.TrimSuffix(target, ".go") + "_test.go"
	}
	ov := map[string]any{"Replace": map[string]string{target: testFile}}
	b, _ := json.Marshal(ov)
	ovf := filepath.Join(tmp, "ov.json")
	os.WriteFile(ovf, b, 0o644)
	args := []string{"test", "-overlay", ovf, "-vet=off", "-count=1", "-timeout", fmt.Sprintf("%ds", timeoutSec)}
	if run != "" {
		args = append(args, "-run", run)
	}
	if os.Getenv("VERIF_RACE") == "1" {
		args = append(args, "-race")
	}
	args = append(args, "-v", "./"+pkg+"/")
	cmd := exec.Command("go", args...)
	cmd.Dir = repo
	// the repository's own toolchain (go.mod's go directive) via GOTOOLCHAIN=auto, offline
	var env []string
	for _, kv := range os.Environ() {
		if strings.HasPrefix(kv, "GOFLAGS=") || strings.HasPrefix(kv, "GOTOOLCHAIN=") || strings.HasPrefix(kv, "GOPROXY=") || strings.HasPrefix(kv, "PATH=") {
			continue
		}
		env = append(env, kv)
	}
	path := os.Getenv("PATH")
	path = strings.TrimPrefix(path, "/opt/veriftools/go1.26.8/bin:")
	env = append(env, "GOFLAGS=", "GOPROXY=off", "GOTOOLCHAIN=auto", "PATH="+path)
	cmd.Env = env
	out, _ := cmd.CombinedOutput()
	return string(out), "cd " + repo + " && go " + strings.Join(args, " ")
}

func runReplay(path, repo, verif string) int {
	b, err := os.ReadFile(path)
	if err != nil {
		fmt.Println("cannot read replay file:", err)
		return 2
	}
	var rec map[string]any
	if err := json.Unmarshal(b, &rec); err != nil {
		fmt.Println("bad replay file:", err)
		return 2
	}
	id, _ := rec["property"].(string)
	fmt.Printf("replay: property %s, obligation %v in %v\n", id, rec["obligation"], rec["function"])
	if c, ok := rec["clause"].(string); ok && c != "" {
		fmt.Println("  clause:", c)
	}
	// re-run the check restricted to this property; the obligation must fail again
	code := runCheck(id, "quick", repo, verif, 0, 16)
	return code
}
