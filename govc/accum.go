package main

import (
	"fmt"
	"go/token"
	"regexp"
)

// accumulates E: a two-state postcondition of a callback (over the callback's captured
// variables, the heap, old(...) and result - never over the callback's own parameters) that is
// closed under sequencing: it holds of "no call at all" (with a nil result) and, when it holds of
// one call that returned nil followed by another call, it holds of the pair. A higher-order
// function that calls the callback any number of times, stops at the first non-nil result and
// changes nothing itself (walk.Descriptors, native.go) therefore satisfies E between its own entry
// and exit. The two closure properties are obligations of the callback (accum-refl, accum-trans);
// E itself is an ordinary postcondition of the callback.
func (fv *FuncVerifier) accumLemmas(st0 *State) {
	fc := fv.fc
	if len(fc.Accum) == 0 {
		return
	}
	fn := fv.fn
	sig := fn.Signature
	for _, c := range fc.Accum {
		txt := c.E.String()
		for _, p := range fn.Params {
			if regexp.MustCompile(`\b` + regexp.QuoteMeta(p.Name()) + `\b`).MatchString(txt) {
				fv.fail("accumulates clause mentions the callback's own parameter %s: %s", p.Name(), c.Src)
				return
			}
		}
		for _, fvv := range fn.FreeVars {
			if closureStores(fn, fvv) && regexp.MustCompile(`\b`+regexp.QuoteMeta(fvv.Name())+`\b`).MatchString(txt) {
				fv.fail("accumulates clause mentions captured variable %s, which the callback assigns: %s", fvv.Name(), c.Src)
				return
			}
		}
	}
	vars := map[string]Value{}
	for k, v := range fv.ghost {
		vars[k] = v
	}
	for _, fvv := range fn.FreeVars {
		if cv, ok := st0.cells[fvv]; ok {
			vars[fvv.Name()] = cv
		}
	}
	mkEnv := func(old, cur *State, res Value) *Env {
		vs := map[string]Value{}
		for k, v := range vars {
			vs[k] = v
		}
		fv.bindResults(vs, res, sig, nil)
		return &Env{fv: fv, enc: fv.enc, st: cur, old: old, vars: vs, oldVars: vars, pkg: fv.pkgOf(), nb: &fv.enc.nfresh, retIdx: -1}
	}
	step := func(s *State) *State {
		n := s.clone()
		if !fc.HasModifies {
			n.havocAll()
			return n
		}
		nh := fv.enc.fresh("hwm", SInt)
		n.assume(Ge(nh, n.hwm))
		n.hwm = nh
		env := fv.preEnv(n)
		for _, m := range fc.Modifies {
			fv.havocClause(n, env, s, m.E, nil)
		}
		return n
	}
	rt := resultType(sig)
	if rt == nil {
		fv.fail("accumulates on a callback without result")
		return
	}
	nilRes := fv.enc.zero(rt)
	// no call at all
	for i, c := range fc.Accum {
		g := fv.evalBool(mkEnv(st0, st0, nilRes), c.E)
		ob := fv.addOb(st0, "post", fmt.Sprintf("accum-refl#%d", i), g, "holds of an empty run of calls: "+c.Src, token.NoPos)
		ob.ClauseProps = c.Props
	}
	// a call that returned nil, then another call
	s1 := step(st0)
	s2 := step(s1)
	res := fv.freshResult(s2, "accres", sig)
	for _, c := range fc.Accum {
		s2.assume(fv.evalBool(mkEnv(st0, s1, nilRes), c.E))
		s2.assume(fv.evalBool(mkEnv(s1, s2, res), c.E))
	}
	for i, c := range fc.Accum {
		g := fv.evalBool(mkEnv(st0, s2, res), c.E)
		ob := fv.addOb(s2, "post", fmt.Sprintf("accum-trans#%d", i), g, "closed under sequencing of calls: "+c.Src, token.NoPos)
		ob.ClauseProps = c.Props
	}
}

// assumeAccum: the run of callback calls made by a higher-order native satisfies the callback's
// accumulating postconditions between pre and st, with the native's result.
func (fv *FuncVerifier) assumeAccum(st, pre *State, c *FuncContract, ci *calleeInfo, res Value) {
	if len(c.Accum) == 0 {
		return
	}
	vars := map[string]Value{}
	oldVars := map[string]Value{}
	for _, g := range c.Ghost {
		if gv, ok := fv.ghost[g.Name]; ok {
			vars[g.Name] = gv
			oldVars[g.Name] = gv
		}
	}
	for i, fvv := range ci.fn.FreeVars {
		b := ci.clo.Bindings[i]
		if b.Place != nil {
			vars[fvv.Name()] = st.load(b.Place)
			oldVars[fvv.Name()] = pre.load(b.Place)
		} else {
			vars[fvv.Name()] = b
			oldVars[fvv.Name()] = b
		}
	}
	fv.bindResults(vars, res, ci.fn.Signature, ci)
	pkg := fv.enc.pkgByPath(c.Pkg)
	if pkg == nil && ci.fn.Pkg != nil {
		pkg = ci.fn.Pkg.Pkg
	}
	env := &Env{fv: fv, enc: fv.enc, st: st, old: pre, vars: vars, oldVars: oldVars, pkg: pkg, nb: &fv.enc.nfresh, retIdx: -1}
	for _, e := range c.Accum {
		st.assume(fv.safeEvalBool(env, e.E, "accumulated post of "+shortName(ci.fn.String())))
	}
}
