package main

import (
	"fmt"
	"go/token"
	"go/types"
	"runtime/debug"
	"sort"
	"strings"

	"golang.org/x/tools/go/ssa"
)

type FuncResult struct {
	Fn       string
	Contract *FuncContract
	Obs      []*Obligation
	Errs     []string
	Enc      *Enc
	Paths    int
	Returns  int
	Loops    int
}

func (s *State) assumeRef(t Term) {
	if isLiteral(t) {
		return
	}
	s.assume(Lt(t, s.hwm)) // (sub-object references are negative)
}

func (s *State) assumeRefs(v Value) {
	if v.Place != nil {
		return
	}
	switch v.Typ.Underlying().(type) {
	case *types.Pointer, *types.Map, *types.Chan:
		s.assumeRef(v.L[0])
	case *types.Slice:
		s.assumeRef(v.L[0])
	case *types.Interface:
		// value part may be a ref or a scalar: no assumption
	case *types.Struct:
		// per-field
		st := v.Typ.Underlying().(*types.Struct)
		for i := 0; i < st.NumFields(); i++ {
			lo, hi := fieldRange(st, i)
			s.assumeRefs(Value{Typ: st.Field(i).Type(), L: v.L[lo:hi]})
		}
	}
}

func VerifyFunction(prog *ssa.Program, db *ContractDB, fn *ssa.Function, fc *FuncContract, maxPaths int) (res *FuncResult) {
	enc := NewEnc(db, prog, fn.Pkg)
	curEnc = enc
	fv := &FuncVerifier{enc: enc, fn: fn, fc: fc, db: db, maxPaths: maxPaths, callIdx: map[string]int{}, obCount: map[string]int{}, nameCells: map[string][]*ssa.Alloc{}, retOrd: map[*ssa.Return]int{}, ghost: map[string]Value{}}
	res = &FuncResult{Fn: fn.String(), Contract: fc, Enc: enc}
	defer func() {
		if r := recover(); r != nil {
			switch e := r.(type) {
			case unsupported:
				fv.errs = append(fv.errs, e.Error())
			case specErr:
				fv.errs = append(fv.errs, "contract error: "+string(e))
			default:
				fv.errs = append(fv.errs, fmt.Sprintf("internal error: %v\n%s", r, debug.Stack()))
			}
		}
		res.Obs = fv.obs
		res.Errs = fv.errs
		res.Paths = fv.paths + 1
		res.Returns = fv.retStates
		res.Loops = len(fv.loops)
	}()
	if len(fn.Blocks) == 0 {
		fv.fail("function has no body")
		return
	}
	st := &State{enc: enc, regs: map[ssa.Value]Value{}, cells: map[ssa.Value]Value{}, heap: map[string]Term{}, prefEp: map[string]int{}, inLoop: map[*ssa.BasicBlock]bool{}, unroll: map[*ssa.BasicBlock]int{}, decr: map[*ssa.BasicBlock]Term{}, rangePos: map[ssa.Value]Term{}, promoted: map[ssa.Value]Term{}, allocSeq: map[ssa.Value]int{}, lastRead: map[string]Term{}}
	st.hwm = enc.declare("hwm0", SInt)
	st.assume(Gt(st.hwm, I(0)))
	enc.epochHwm[0] = st.hwm
	enc.noLocksAtEntry = fc.NoLocks
	fv.params = map[string]Value{}
	for pi, p := range fn.Params {
		v := st.freshValue(smtParamHint(fn, pi, p.Name()), p.Type())
		st.assumeRefs(v)
		if _, isSlice := p.Type().Underlying().(*types.Slice); isSlice && len(v.L) == 4 {
			// a slice with capacity points into an array (only the nil slice and empty slices made
			// from it have a nil base pointer); stated for slice parameters only - as a blanket
			// fact on every slice value it slowed unrelated arithmetic proofs down a hundredfold
			st.assume(Implies(Gt(v.L[3], I(0)), Not(Eq(v.L[0], I(0)))))
		}
		st.regs[p] = v
		fv.params[p.Name()] = v
	}
	fv.localHints = smtLocalHints(fn)
	for fi, fvv := range fn.FreeVars {
		pt := fvv.Type().Underlying().(*types.Pointer)
		v := st.freshValue(smtFreeVarHint(fn, fi, fvv.Name()), pt.Elem())
		st.assumeRefs(v)
		st.cells[fvv] = v
	}
	for _, g := range fc.Ghost {
		env := &Env{fv: fv, enc: enc, st: st, pkg: fv.pkgOf(), nb: &enc.nfresh}
		_ = env
		pv := specParamValue(g, g.Name+"!g")
		for i, l := range specParamLeaves(g.Type) {
			enc.declare(g.Name+"!g"+l.Suffix, l.Sort)
			_ = i
		}
		fv.ghost[g.Name] = pv
	}
	// index named cells and return sites
	nret := 0
	for _, b := range fn.Blocks {
		for _, ins := range b.Instrs {
			switch x := ins.(type) {
			case *ssa.Alloc:
				if x.Comment != "" && !strings.Contains(x.Comment, "$") && x.Comment != "varargs" && x.Comment != "complit" {
					fv.nameCells[x.Comment] = append(fv.nameCells[x.Comment], x)
				}
			case *ssa.Return:
				fv.retOrd[x] = nret
				nret++
			}
		}
	}
	fv.applyNameAliases()
	for was, now := range renamedFuncs {
		if now == fn.String() {
			fv.renamed = append(fv.renamed, "function (was "+shortName(was)+")")
		}
	}
	for _, r := range fv.renamed {
		enc.assumedUsed["renamed since the contracts were written, resolved by position (contracts/names.json): "+shortName(fn.String())+": "+r] = true
	}
	fv.initLocks(st)
	// lemma axioms
	for _, ln := range fc.Uses {
		lm := db.Lemmas[ln]
		if lm == nil {
			fv.fail("unknown lemma %q in use clause", ln)
			continue
		}
		st.assume(lemmaAxiom(enc, lm))
	}
	// requires
	env := fv.preEnv(st)
	for _, r := range fc.Requires {
		st.assume(fv.safeEvalBool(env, r.E, "requires"))
	}
	if isPkgInit(fn) {
		// the Go runtime runs a package initialiser exactly once (assumed): its guard is unset
		if g, ok := fn.Pkg.Members["init$guard"].(*ssa.Global); ok {
			gv := st.get(g)
			if gv.Place != nil {
				st.store(gv.Place, boolVal(FalseT))
			}
			enc.assumedUsed["the Go runtime runs a package initialiser exactly once (init$guard is unset on entry)"] = true
		}
	}
	// package invariants over initialise-once globals: assumed at the entry of every function of
	// the package except the initialiser and its closures (ginv.go)
	if fn.Pkg != nil && !isPkgInit(fn) && !isInitClosure(fn) {
		if gis := ginvsFor(db, fn.Pkg.Pkg.Path()); len(gis) > 0 {
			// ... and again after every call that may have changed arbitrary memory: nobody can
			// reach these variables, so the invariant still holds
			enc.afterHavoc = func(hs, before *State) {
				henv := fv.preEnv(hs)
				for _, gi := range gis {
					hs.assume(fv.safeEvalBool(henv, gi.E, "package invariant"))
					// the variables themselves (and the arrays behind slice-typed ones) are what
					// they were: nothing outside the initialiser can reach them
					for _, gname := range gi.Globals {
						g, ok := fn.Pkg.Members[gname].(*ssa.Global)
						if !ok {
							continue
						}
						gv := hs.get(g)
						if gv.Place == nil {
							continue
						}
						nv := hs.load(gv.Place)
						ov := before.load(gv.Place)
						for i := range nv.L {
							if i < len(ov.L) {
								hs.assume(Eq(nv.L[i], ov.L[i]))
							}
						}
						if sl, isSlice := nv.Typ.Underlying().(*types.Slice); isSlice {
							for _, l := range flatten(sl.Elem()) {
								name := "E_" + typeKey(sl.Elem()) + l.Suffix
								na := hs.heapArr(name, arrSort(arrSort(l.Sort)))
								oa := before.heapArr(name, arrSort(arrSort(l.Sort)))
								hs.assume(Eq(Select(na, nv.L[0]), Select(oa, ov.L[0])))
							}
						}
					}
				}
			}
		}
		for _, gi := range ginvsFor(db, fn.Pkg.Pkg.Path()) {
			st.assume(fv.safeEvalBool(env, gi.E, "package invariant"))
			enc.assumedUsed["package invariant "+gi.Src+" over "+strings.Join(gi.Globals, ", ")+": established by the package initialiser (obligation of init) and preserved because these variables are written only there and never handed out (ssa-scan obligations)"] = true
		}
	}
	ob := fv.addOb(st, "cover", "cover:pre", TrueT, "precondition satisfiable", token.NoPos)
	ob.Cover = true
	fv.pre = st.clone()
	fv.accumLemmas(fv.pre)
	enc.frameHook = fv.loopFrameAxiom
	fv.findLoops()
	if len(fv.errs) > 0 {
		return
	}
	// loops that are unrolled follow their back edges: use path enumeration for those functions;
	// everything else is executed block-wise with state merging at join points
	dfs := fc.Mode == "paths"
	for _, li := range fv.loops {
		if li.lc != nil && li.lc.Unroll > 0 {
			dfs = true
		}
	}
	if dfs {
		fv.runBlock(st, fn.Blocks[0])
	} else {
		fv.runMerged(st)
	}
	return
}

type frameAllow struct {
	prefix string
	obj    *Term // nil = whole prefix
}

// frameAllows evaluates the modifies clause in the pre-state (cached).
func (fv *FuncVerifier) frameAllows() []frameAllow {
	if fv.allowsDone {
		return fv.allows
	}
	fv.allowsDone = true
	fv.allows = fv.allowsFor(fv.fc.Modifies)
	return fv.allows
}

// allowsFor evaluates a list of location expressions (modifies / writes clause) in the pre-state.
func (fv *FuncVerifier) allowsFor(clauses []Clause) []frameAllow {
	env := fv.preEnv(fv.pre)
	var allows []frameAllow
	for _, m := range clauses {
		switch x := m.E.(type) {
		case *SField:
			base := env.eval(x.X)
			t, _ := derefType(base.Typ)
			o := base.L[0]
			allows = append(allows, frameAllow{"H_" + typeKey(t) + "." + x.Name, &o})
		case *SCall:
			switch x.Fn {
			case "elems":
				sv := env.eval(x.Args[0])
				sl := sv.Typ.Underlying().(*types.Slice)
				o := sv.L[0]
				allows = append(allows, frameAllow{"E_" + typeKey(sl.Elem()), &o})
			case "deref":
				pv := env.eval(x.Args[0])
				if pv.Place != nil {
					continue
				}
				t, _ := derefType(pv.Typ)
				o := pv.L[0]
				switch u := t.Underlying().(type) {
				case *types.Struct:
					allows = append(allows, frameAllow{"H_" + typeKey(t), &o})
				case *types.Array:
					allows = append(allows, frameAllow{"E_" + typeKey(u.Elem()), &o})
				default:
					allows = append(allows, frameAllow{"C_" + typeKey(t), &o})
				}
			case "all":
				allows = append(allows, frameAllow{fv.prefixOfTypeField(env, typeExprString(x.Args[0])), nil})
			case "ghost":
				allows = append(allows, frameAllow{"GH_" + x.Args[0].(*SIdent).Name, nil})
			case "locks":
				allows = append(allows, frameAllow{"LK_", nil})
			case "mapcontent":
				mv := env.eval(x.Args[0])
				o := mv.L[0]
				allows = append(allows, frameAllow{"M_content", &o})
			case "anything":
				allows = append(allows, frameAllow{"*", nil})
			}
		case *SIdent:
			if fields, ok := fv.db.Regions[x.Name]; ok {
				for _, f := range fields {
					allows = append(allows, frameAllow{fv.prefixOfTypeField(env, f), nil})
				}
				if regionHasMaps(env, fields) {
					allows = append(allows, frameAllow{"M_", nil})
				}
			}
		}
	}
	return allows
}

// frameGoal: "cur differs from the entry version of heap array name only at allowed objects".
// ok=false when the whole array may change.
func (fv *FuncVerifier) frameGoal(name, sortS string, cur Term) (Term, bool) {
	old := fv.pre.heapArr(name, sortS)
	if cur.S == old.S {
		return TrueT, true
	}
	whole := false
	var objs []Term
	for _, a := range fv.frameAllows() {
		if a.prefix == "*" {
			if !strings.HasPrefix(name, "LK_") {
				whole = true
			}
			continue
		}
		if strings.HasPrefix(name, a.prefix) {
			if a.obj == nil {
				whole = true
			} else {
				objs = append(objs, *a.obj)
			}
		}
	}
	if whole {
		return TrueT, false
	}
	if !strings.HasPrefix(sortS, "(Array") {
		return Eq(cur, old), true
	}
	r := Term{"r!f", SInt}
	// (reference 0 is nil: there is no such object, and the "elements of the nil array" that an
	// append to a nil slice nominally overwrites are never read)
	conds := []Term{Lt(r, fv.pre.hwm), Not(Eq(r, I(0)))}
	if strings.HasPrefix(name, "LK_") {
		// lock/once state lives at sub-object references (negative): a sub-object of an object
		// allocated by this activation is not part of the caller's state
		if _, ok := fv.enc.funs["subowner"]; ok {
			conds = append(conds, Or(Ge(r, I(0)), Lt(app(SInt, "subowner", r), fv.pre.hwm)))
		}
	}
	for _, o := range objs {
		conds = append(conds, Not(Eq(r, o)))
	}
	return Forall([]string{"r!f"}, Implies(And(conds...), Eq(Select(cur, r), Select(old, r)))), true
}

// loopFrameAxiom is called when a heap array version created by a loop havoc is materialised:
// the loop frame (checked at every back edge) says it agrees with the entry version outside
// the function's modifies clause.
func (fv *FuncVerifier) loopFrameAxiom(name string, t Term, sortS string) {
	if fv.fc == nil || !fv.fc.HasModifies || fv.pre == nil || strings.HasPrefix(name, "LKE_") {
		return
	}
	g, ok := fv.frameGoal(name, sortS, t)
	if ok && g.S != "true" {
		fv.enc.addAxiom(g.S)
	}
}

// checkFrame emits frame obligations at a return site (label "ret<k>") or at a loop back edge
// (label "L<k>@b<j>") when the contract has a modifies clause.
func (fv *FuncVerifier) checkFrame(st *State, retIdx int, pos token.Pos) {
	fv.checkFrameAt(st, fmt.Sprintf("ret%d", retIdx), pos)
}

func (fv *FuncVerifier) checkFrameAt(st *State, label string, pos token.Pos) {
	fv.checkFrameFiltered(st, label, pos, nil)
}

// checkFrameFiltered: only is non-nil for loop back edges: the heap arrays the loop may modify
// (others are unchanged since the loop head by construction).
func (fv *FuncVerifier) checkFrameFiltered(st *State, label string, pos token.Pos, only func(name string) bool) {
	fc := fv.fc
	if !fc.HasModifies {
		return
	}
	anything := false
	for _, a := range fv.frameAllows() {
		if a.prefix == "*" {
			anything = true
		}
	}
	if st.epoch != fv.pre.epoch && !anything {
		fv.addOb(st, "frame", fmt.Sprintf("frame:*@%s", label), FalseT, "whole heap havocked by an unspecified call; frame cannot be established", pos)
		return
	}
	// every heap array known to the encoder
	names := map[string]bool{}
	for k := range st.heap {
		names[k] = true
	}
	for p := range st.prefEp {
		for _, d := range fv.enc.heapNames() {
			if strings.HasPrefix(d, p) {
				names[d] = true
			}
		}
	}
	var sorted []string
	for k := range names {
		sorted = append(sorted, k)
	}
	sort.Strings(sorted)
	// one obligation per site: the conjunction over all touched heap arrays (split on failure,
	// the failing part names the array)
	var goals []Term
	var parts []string
	for _, name := range sorted {
		if strings.HasPrefix(name, "LK_") && !fv.locksInFrame() {
			continue
		}
		if strings.HasPrefix(name, "LKE_") || name == "GH_mepoch" || name == "GH_walked" {
			continue // ghost critical-section counters; interference epoch of the map model
		}
		if only != nil && !only(name) {
			continue
		}
		var sortS string
		if t, ok := st.heap[name]; ok {
			sortS = t.Sort
		} else {
			sortS = fv.enc.heapSort(name)
		}
		cur := st.heapArr(name, sortS)
		goal, ok := fv.frameGoal(name, sortS, cur)
		if !ok || goal.S == "true" {
			continue
		}
		goals = append(goals, goal)
		parts = append(parts, name)
	}
	if len(goals) == 0 {
		return
	}
	ob := fv.addOb(st, "frame", fmt.Sprintf("frame@%s", label), And(goals...), "only locations in the modifies clause change", pos)
	ob.Parts = parts
}

func (e *Enc) heapNames() []string {
	seen := map[string]bool{}
	var out []string
	for _, d := range e.declOrder {
		if i := strings.LastIndex(d, "@e"); i > 0 {
			n := d[:i]
			if !seen[n] {
				seen[n] = true
				out = append(out, n)
			}
		}
	}
	return out
}

func (e *Enc) heapSort(name string) string {
	for _, d := range e.declOrder {
		if strings.HasPrefix(d, sanitizeHeap(name)+"@e") {
			return e.decls[d]
		}
	}
	if s, ok := e.decls[name]; ok {
		return s
	}
	panic("heapSort: unknown heap array " + name)
}

// predDefAxiom: forall params. P_name(params) <=> body  (the definition of an opaque predicate,
// handed only to the obligations of clauses that reveal it)
func predDefAxiom(enc *Enc, pd *Pred) Term {
	vars := map[string]Value{}
	var binders []string
	var args []Term
	var sorts []string
	for _, p := range pd.Params {
		nm := p.Name + "!D"
		v := specParamValue(p, nm)
		vars[p.Name] = v
		for _, l := range specParamLeaves(p.Type) {
			binders = append(binders, fmt.Sprintf("(%s %s)", nm+l.Suffix, l.Sort))
			sorts = append(sorts, l.Sort)
		}
		args = append(args, v.L...)
	}
	enc.declareFun("P_"+pd.Name, sorts, "Bool")
	env := &Env{enc: enc, vars: vars, nb: &enc.nfresh, noHeap: true, pkg: enc.pkgByPath(pd.Pkg), reveal: map[string]bool{pd.Name: true}}
	body := env.evalB(pd.Body)
	atom := app(SBool, "P_"+pd.Name, args...)
	return Term{"(forall (" + strings.Join(binders, " ") + ") (! (= " + atom.S + " " + body.S + ") :pattern (" + atom.S + ")))", SBool}
}

// revealAxioms: the definitions a clause's proof may use.
func revealAxioms(enc *Enc, names []string) []Term {
	var out []Term
	for _, n := range names {
		pd := enc.db.Preds[n]
		if pd == nil || !pd.Opaque {
			panic(specErr("reveal: " + n + " is not an opaque predicate"))
		}
		out = append(out, predDefAxiom(enc, pd))
	}
	return out
}

// lemmaAxiom: forall params. requires ==> ensures
func lemmaAxiom(enc *Enc, lm *Lemma) Term {
	vars := map[string]Value{}
	var binders []string
	for _, p := range lm.Params {
		nm := p.Name + "!L"
		vars[p.Name] = specParamValue(p, nm)
		for _, l := range specParamLeaves(p.Type) {
			binders = append(binders, fmt.Sprintf("(%s %s)", nm+l.Suffix, l.Sort))
		}
	}
	env := &Env{enc: enc, vars: vars, nb: &enc.nfresh, noHeap: true, pkg: enc.pkgByPath(lm.Pkg)}
	var req, ens []Term
	for _, r := range lm.Requires {
		req = append(req, env.evalB(r.E))
	}
	for _, r := range lm.Ensures {
		ens = append(ens, env.evalB(r.E))
	}
	body := Implies(And(req...), And(ens...))
	if len(lm.Triggers) > 0 {
		var pats []string
		for _, trig := range lm.Triggers {
			var ts []string
			for _, e := range trig {
				ts = append(ts, env.eval(e).L[0].S)
			}
			pats = append(pats, ":pattern ("+strings.Join(ts, " ")+")")
		}
		return Term{"(forall (" + strings.Join(binders, " ") + ") (! " + body.S + " " + strings.Join(pats, " ") + "))", SBool}
	}
	return Term{"(forall (" + strings.Join(binders, " ") + ") " + body.S + ")", SBool}
}

// VerifyLemma produces the base and step obligations of an induction lemma (or a direct obligation).
func VerifyLemma(prog *ssa.Program, db *ContractDB, lm *Lemma) *FuncResult {
	enc := NewEnc(db, prog, nil)
	res := &FuncResult{Fn: "lemma " + lm.Name, Enc: enc}
	defer func() {
		if r := recover(); r != nil {
			if se, ok := r.(specErr); ok {
				res.Errs = append(res.Errs, "lemma error: "+string(se))
				return
			}
			panic(r)
		}
	}()
	vars := map[string]Value{}
	for _, p := range lm.Params {
		nm := p.Name + "!0"
		vars[p.Name] = specParamValue(p, nm)
		for _, l := range specParamLeaves(p.Type) {
			enc.declare(nm+l.Suffix, l.Sort)
		}
	}
	env := &Env{enc: enc, vars: vars, nb: &enc.nfresh, noHeap: true, pkg: enc.pkgByPath(lm.Pkg)}
	var pc []Term
	for _, u := range lm.Uses {
		ul := db.Lemmas[u]
		if ul == nil {
			res.Errs = append(res.Errs, "unknown lemma "+u)
			return res
		}
		pc = append(pc, lemmaAxiom(enc, ul))
	}
	pc = append(pc, revealAxioms(enc, lm.Reveal)...)
	var req, ens []Term
	for _, r := range lm.Requires {
		req = append(req, env.evalB(r.E))
	}
	for _, r := range lm.Ensures {
		ens = append(ens, env.evalB(r.E))
	}
	goal := And(ens...)
	if lm.IndVar == "" {
		res.Obs = append(res.Obs, &Obligation{Name: "lemma:" + lm.Name, Kind: "lemma", Fn: res.Fn, PC: append(pc, req...), Goal: goal, Src: lm.Src})
		return res
	}
	iv, ok := vars[lm.IndVar]
	if !ok {
		res.Errs = append(res.Errs, "induction variable not a parameter")
		return res
	}
	from := env.evalI(lm.From)
	// base: v <= from
	basePC := append(append([]Term(nil), pc...), req...)
	basePC = append(basePC, Le(iv.L[0], from))
	res.Obs = append(res.Obs, &Obligation{Name: "lemma:" + lm.Name + "/base", Kind: "lemma", Fn: res.Fn, PC: basePC, Goal: goal, Src: lm.Src})
	// step: IH at v-1 for all other parameters
	ihVars := map[string]Value{}
	var binders []string
	for _, p := range lm.Params {
		if p.Name == lm.IndVar {
			ihVars[p.Name] = intVal(Sub(iv.L[0], I(1)))
			continue
		}
		nm := p.Name + "!ih"
		ihVars[p.Name] = specParamValue(p, nm)
		for _, l := range specParamLeaves(p.Type) {
			binders = append(binders, fmt.Sprintf("(%s %s)", nm+l.Suffix, l.Sort))
		}
	}
	ihEnv := &Env{enc: enc, vars: ihVars, nb: &enc.nfresh, noHeap: true, pkg: env.pkg}
	var ireq, iens []Term
	for _, r := range lm.Requires {
		ireq = append(ireq, ihEnv.evalB(r.E))
	}
	for _, r := range lm.Ensures {
		iens = append(iens, ihEnv.evalB(r.E))
	}
	ihBody := Implies(And(ireq...), And(iens...))
	ih := ihBody
	if len(binders) > 0 {
		ih = Term{"(forall (" + strings.Join(binders, " ") + ") " + ihBody.S + ")", SBool}
	}
	stepPC := append(append([]Term(nil), pc...), req...)
	stepPC = append(stepPC, Gt(iv.L[0], from), ih)
	res.Obs = append(res.Obs, &Obligation{Name: "lemma:" + lm.Name + "/step", Kind: "lemma", Fn: res.Fn, PC: stepPC, Goal: goal, Src: lm.Src})
	return res
}
