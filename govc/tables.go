package main

import (
	"fmt"
	"go/ast"
	"go/constant"
	"go/token"
	"math"
	"math/big"
	"strconv"
	"strings"

	"golang.org/x/tools/go/packages"
)

// Constant tables: "//@ table <var> pow <base> <step>" states that entry i of the package-level
// array/slice literal <var> is the float64 nearest (ties to even) to base^(step*i). The entries'
// exact values come from go/types constant evaluation of the real initialiser expressions; the
// obligation table:<var>[i] is discharged by exact rational arithmetic (back end "constant-eval").

type TableDecl struct {
	Var   string
	Kind  string
	Base  int64
	Step  int64
	Pkg   string
	Props []string
}

func parseTableDecl(head, pkg string, props []string) (*TableDecl, error) {
	fs := strings.Fields(head)
	if len(fs) != 4 || fs[1] != "pow" {
		return nil, fmt.Errorf("expected 'table <var> pow <base> <step>', got %q", head)
	}
	b, err1 := strconv.ParseInt(fs[2], 10, 64)
	s, err2 := strconv.ParseInt(fs[3], 10, 64)
	if err1 != nil || err2 != nil {
		return nil, fmt.Errorf("bad table declaration %q", head)
	}
	return &TableDecl{Var: fs[0], Kind: "pow", Base: b, Step: s, Pkg: pkg, Props: props}, nil
}

func findPkg(pkgs []*packages.Package, path string) *packages.Package {
	var found *packages.Package
	packages.Visit(pkgs, func(p *packages.Package) bool {
		if p.PkgPath == path {
			found = p
		}
		return found == nil
	}, nil)
	return found
}

// VerifyTable produces one obligation per table entry, already decided.
func VerifyTable(pkgs []*packages.Package, td *TableDecl) *FuncResult {
	res := &FuncResult{Fn: "table " + td.Pkg + "." + td.Var}
	p := findPkg(pkgs, td.Pkg)
	if p == nil {
		res.Errs = append(res.Errs, "package not loaded: "+td.Pkg)
		return res
	}
	var lit *ast.CompositeLit
	var pos token.Pos
	for _, f := range p.Syntax {
		for _, d := range f.Decls {
			gd, ok := d.(*ast.GenDecl)
			if !ok || gd.Tok != token.VAR {
				continue
			}
			for _, sp := range gd.Specs {
				vs := sp.(*ast.ValueSpec)
				for i, n := range vs.Names {
					if n.Name == td.Var && i < len(vs.Values) {
						if cl, ok := vs.Values[i].(*ast.CompositeLit); ok {
							lit = cl
							pos = n.Pos()
						}
					}
				}
			}
		}
	}
	if lit == nil {
		res.Errs = append(res.Errs, "contract does not bind: no composite-literal initialiser for "+td.Var)
		return res
	}
	where := p.Fset.Position(pos)
	for i, el := range lit.Elts {
		tv, ok := p.TypesInfo.Types[el]
		ob := &Obligation{Name: fmt.Sprintf("table:%s[%d]", td.Var, i), Kind: "table", Fn: res.Fn, Goal: TrueT,
			Src: fmt.Sprintf("%s[%d] == float64(%d^(%d*%d)) correctly rounded", td.Var, i, td.Base, td.Step, i), Pos: fmt.Sprintf("%s:%d", where.Filename, where.Line)}
		if !ok || tv.Value == nil {
			ob.Result = &SolveResult{Status: "unknown", Solver: "constant-eval", Output: "entry is not a constant expression"}
			res.Obs = append(res.Obs, ob)
			continue
		}
		got, _ := constant.Float64Val(constant.ToFloat(tv.Value))
		// exact base^(step*i)
		e := td.Step * int64(i)
		num := new(big.Int).Exp(big.NewInt(td.Base), big.NewInt(abs64(e)), nil)
		r := new(big.Rat).SetInt(num)
		if e < 0 {
			r.Inv(r)
		}
		want, _ := new(big.Float).SetPrec(2000).SetRat(r).Float64() // nearest even (default rounding mode)
		// big.Float.Float64 rounds the 2000-bit value; 2000 bits represent 5^k exactly for the table sizes used
		if td.Base == 5 && abs64(e) > 800 {
			ob.Result = &SolveResult{Status: "unknown", Solver: "constant-eval", Output: "exponent too large for exact evaluation"}
		} else if !math.IsNaN(got) && !math.IsInf(got, 0) && isNearest64(got, r) {
			ob.Result = &SolveResult{Status: "unsat", Solver: "constant-eval"}
		} else {
			ob.Result = &SolveResult{Status: "sat", Solver: "constant-eval", Model: fmt.Sprintf("%s[%d] is %v but the correctly rounded value of %d^%d is %v", td.Var, i, got, td.Base, e, want)}
		}
		res.Obs = append(res.Obs, ob)
	}
	return res
}

func abs64(x int64) int64 {
	if x < 0 {
		return -x
	}
	return x
}

// isNearest64: got is the binary64 nearest to the exact rational r (ties to even), decided with
// exact rational arithmetic against both neighbours.
func isNearest64(got float64, r *big.Rat) bool {
	g := new(big.Rat)
	if g.SetFloat64(got) == nil {
		return false
	}
	dist := func(x float64) *big.Rat {
		if math.IsInf(x, 0) {
			return nil
		}
		d := new(big.Rat).Sub(r, new(big.Rat).SetFloat64(x))
		return d.Abs(d)
	}
	dg := dist(got)
	for _, nb := range []float64{math.Nextafter(got, math.Inf(1)), math.Nextafter(got, math.Inf(-1))} {
		dn := dist(nb)
		if dn == nil {
			continue
		}
		switch dg.Cmp(dn) {
		case 1:
			return false
		case 0:
			// tie: got must have an even mantissa
			if math.Float64bits(got)&1 != 0 {
				return false
			}
		}
	}
	return true
}
