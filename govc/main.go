package main

import (
	"flag"
	"fmt"
	"os"
	"path/filepath"
	"regexp"
	"sort"
	"strings"
	"time"

	"golang.org/x/tools/go/packages"
	"golang.org/x/tools/go/ssa"
	"golang.org/x/tools/go/ssa/ssautil"
)

const modulePath = "github.com/bufbuild/protocompile"

type Loaded struct {
	Prog *ssa.Program
	Pkgs []*ssa.Package
	GoPkgs []*packages.Package
	DB   *ContractDB
	LoadSeconds float64
}

func findContractFiles(repo string) ([]string, error) {
	var out []string
	err := filepath.Walk(repo, func(p string, info os.FileInfo, err error) error {
		if err != nil {
			return err
		}
		if info.IsDir() && (info.Name() == ".git" || info.Name() == "testdata") {
			return filepath.SkipDir
		}
		if !info.IsDir() && info.Name() == "zz_contracts_verif.go" {
			out = append(out, p)
		}
		return nil
	})
	sort.Strings(out)
	return out, err
}

func pkgPathOfFile(repo, file string) string {
	rel, _ := filepath.Rel(repo, filepath.Dir(file))
	if rel == "." {
		return modulePath
	}
	return modulePath + "/" + filepath.ToSlash(rel)
}

func hasProp(props []string, want map[string]bool) bool {
	if len(want) == 0 {
		return true
	}
	for _, p := range props {
		if want[p] {
			return true
		}
	}
	return false
}

func loadAll(repo, verifDir string, want map[string]bool) (*Loaded, error) {
	db := NewContractDB()
	files, err := findContractFiles(repo)
	if err != nil {
		return nil, err
	}
	for _, f := range files {
		if err := db.LoadContracts(f, pkgPathOfFile(repo, f)); err != nil {
			return nil, err
		}
	}
	std := filepath.Join(verifDir, "contracts", "stdlib.spec")
	if _, err := os.Stat(std); err == nil {
		if err := db.LoadContracts(std, ""); err != nil {
			return nil, err
		}
	}
	// packages that carry contracts for the wanted properties
	pkgSet := map[string]bool{}
	for _, fc := range db.Funcs {
		if fc.Assumed || fc.Pkg == "" {
			continue
		}
		if hasProp(fc.Props, want) {
			pkgSet[fc.Pkg] = true
		}
	}
	for _, td := range db.Tables {
		if hasProp(td.Props, want) {
			pkgSet[td.Pkg] = true
		}
	}
	for _, gi := range db.GInvs {
		if hasProp(gi.Props, want) {
			pkgSet[gi.Pkg] = true
		}
	}
	var patterns []string
	for p := range pkgSet {
		patterns = append(patterns, p)
	}
	sort.Strings(patterns)
	if len(patterns) == 0 {
		return &Loaded{DB: db}, nil
	}
	t0 := time.Now()
	cfg := &packages.Config{Mode: packages.LoadAllSyntax, Dir: repo, Tests: false, Env: loaderEnv(), BuildFlags: []string{"-tags=verif"}}
	pkgs, err := packages.Load(cfg, patterns...)
	if err != nil {
		return nil, err
	}
	if n := packages.PrintErrors(pkgs); n > 0 {
		return nil, fmt.Errorf("%d package load errors", n)
	}
	prog, spkgs := ssautil.AllPackages(pkgs, ssa.InstantiateGenerics|ssa.NaiveForm|ssa.GlobalDebug)
	prog.Build()
	return &Loaded{Prog: prog, Pkgs: spkgs, DB: db, LoadSeconds: time.Since(t0).Seconds(), GoPkgs: pkgs}, nil
}

func main() {
	// go/packages looks up "go" in this process's PATH: make it the newer toolchain
	os.Setenv("PATH", "/opt/veriftools/go1.26.8/bin:"+os.Getenv("PATH"))
	os.Setenv("GOFLAGS", "")
	os.Setenv("GOTOOLCHAIN", "local")
	os.Setenv("GOPROXY", "off")
	os.Unsetenv("GOSUMDB")
	if len(os.Args) < 2 {
		fmt.Fprintln(os.Stderr, "usage: govc verify|check ...")
		os.Exit(2)
	}
	switch os.Args[1] {
	case "verify":
		cmdVerify(os.Args[2:])
	case "check":
		cmdCheck(os.Args[2:])
	case "names":
		cmdNames(os.Args[2:])
	default:
		fmt.Fprintln(os.Stderr, "unknown command", os.Args[1])
		os.Exit(2)
	}
}

type RunOpts struct {
	Repo, Verif string
	Props       map[string]bool
	FnRe        *regexp.Regexp
	Timeout     int
	Portfolio   []string
	SkipRetry   func(fn, ob string) bool
	Jobs        int
	KeepDir     string
	MaxPaths    int
	Kinds       map[string]bool
	CrossCheck  bool
}

type RunResult struct {
	Loaded  *Loaded
	Results []*FuncResult
	Dir     string
	VCSeconds, SolveSeconds float64
}

func runVerification(o RunOpts) (*RunResult, error) {
	ld, err := loadAll(o.Repo, o.Verif, o.Props)
	if err != nil {
		return nil, err
	}
	rr := &RunResult{Loaded: ld}
	t0 := time.Now()
	db := ld.DB
	loadBaselineNames(o.Verif)
	resolveRenamedFuncs(ld)
	computeRenames(ld)
	for _, name := range db.LemmaOrder {
		lm := db.Lemmas[name]
		if lm.Axiom || !hasProp(lm.Props, o.Props) {
			continue
		}
		if o.FnRe != nil && !o.FnRe.MatchString("lemma "+name) {
			continue
		}
		rr.Results = append(rr.Results, VerifyLemma(ld.Prog, db, lm))
	}
	if ld.Prog != nil {
		autoGuardSweep(ld, o.Props)
	}
	for _, td := range db.Tables {
		if !hasProp(td.Props, o.Props) || ld.GoPkgs == nil {
			continue
		}
		if o.FnRe != nil && !o.FnRe.MatchString("table "+td.Var) {
			continue
		}
		rr.Results = append(rr.Results, VerifyTable(ld.GoPkgs, td))
	}
	for _, gi := range db.GInvs {
		if !hasProp(gi.Props, o.Props) || ld.Prog == nil {
			continue
		}
		if o.FnRe != nil && !o.FnRe.MatchString("ginv "+gi.Src) {
			continue
		}
		rr.Results = append(rr.Results, VerifyGInvScan(ld.Prog, gi))
	}
	for _, name := range db.Order {
		fc := db.Funcs[name]
		if fc.Assumed || !hasProp(fc.Props, o.Props) {
			continue
		}
		if o.FnRe != nil && !o.FnRe.MatchString(name) {
			continue
		}
		if strings.HasPrefix(fc.RelName, "interface ") {
			continue
		}
		if fc.Inline {
			// "inline": no contract of its own; the body is executed (loops unrolled, with unwinding
			// obligations) at every call site from a function under contract
			continue
		}
		fn := findFunc(ld.Prog, name)
		if fn == nil {
			rr.Results = append(rr.Results, &FuncResult{Fn: name, Contract: fc, Errs: []string{"contract does not bind: function not found in " + fc.Pkg}})
			continue
		}
		if fn.TypeParams().Len() > 0 && len(fn.TypeArgs()) == 0 {
			// a generic function: its contract is checked on every instance the loaded packages
			// create (go/ssa builds one body per instantiation)
			var insts []*ssa.Function
			for f := range ssautil.AllFunctions(ld.Prog) {
				if f.Origin() == fn && len(f.Blocks) > 0 {
					insts = append(insts, f)
				}
			}
			sort.Slice(insts, func(i, j int) bool { return insts[i].String() < insts[j].String() })
			if len(insts) == 0 {
				rr.Results = append(rr.Results, &FuncResult{Fn: name, Contract: fc, Errs: []string{"contract does not bind: generic function without instances in the loaded packages"}})
			}
			for _, f := range insts {
				rr.Results = append(rr.Results, VerifyFunction(ld.Prog, db, f, fc, o.MaxPaths))
			}
			continue
		}
		rr.Results = append(rr.Results, VerifyFunction(ld.Prog, db, fn, fc, o.MaxPaths))
	}
	rr.VCSeconds = time.Since(t0).Seconds()
	dir := o.KeepDir
	if dir == "" {
		dir, err = os.MkdirTemp("/dev/shm", "govc-")
		if err != nil {
			dir, err = os.MkdirTemp("", "govc-")
			if err != nil {
				return nil, err
			}
		}
	} else {
		os.MkdirAll(dir, 0o755)
	}
	rr.Dir = dir
	t1 := time.Now()
	discharge(rr.Results, SolveOpts{Dir: dir, Timeout: o.Timeout, Portfolio: o.Portfolio, Jobs: o.Jobs, Kinds: o.Kinds, CrossCheck: o.CrossCheck, Props: o.Props, SkipRetry: o.SkipRetry})
	rr.SolveSeconds = time.Since(t1).Seconds()
	return rr, nil
}

func parseProps(s string) map[string]bool {
	m := map[string]bool{}
	for _, p := range strings.Split(s, ",") {
		p = strings.TrimSpace(p)
		if p != "" {
			m[p] = true
		}
	}
	return m
}

func cmdVerify(args []string) {
	fs := flag.NewFlagSet("verify", flag.ExitOnError)
	repo := fs.String("repo", "/repo", "repository root")
	verif := fs.String("verif", "/verif", "verif root")
	props := fs.String("props", "", "comma-separated property ids")
	fnre := fs.String("fn", "", "regexp on function names")
	timeout := fs.Int("timeout", 10, "solver timeout (s)")
	portfolio := fs.String("solvers", "z3-new,z3,cvc5", "solver portfolio order")
	keep := fs.String("keep", "", "directory to keep queries in")
	verbose := fs.Bool("v", false, "verbose")
	jobs := fs.Int("j", 16, "parallel solver jobs")
	maxPaths := fs.Int("maxpaths", 20000, "path budget per function")
	maxShow := fs.Int("show", 8, "max failed obligations listed per function (non-verbose)")
	nshown := map[string]int{}
	stats := fs.Bool("stats", false, "print solver time statistics")
	fs.Parse(args)
	o := RunOpts{Repo: *repo, Verif: *verif, Props: parseProps(*props), Timeout: *timeout, Portfolio: strings.Split(*portfolio, ","), Jobs: *jobs, KeepDir: *keep, MaxPaths: *maxPaths}
	if *fnre != "" {
		o.FnRe = regexp.MustCompile(*fnre)
	}
	rr, err := runVerification(o)
	if err != nil {
		fmt.Fprintln(os.Stderr, "error:", err)
		os.Exit(2)
	}
	if *keep == "" {
		defer os.RemoveAll(rr.Dir)
	}
	bad := 0
	total := 0
	for _, fr := range rr.Results {
		fmt.Printf("== %s  (paths %d, returns %d, loops %d)\n", fr.Fn, fr.Paths, fr.Returns, fr.Loops)
		for _, e := range fr.Errs {
			fmt.Printf("   ERROR: %s\n", e)
			bad++
		}
		if fr.Enc != nil && len(fr.Enc.havocAllCalls) > 0 {
			fmt.Printf("   note: calls without contract (whole heap havocked): %s\n", strings.Join(sortedKeys(fr.Enc.havocAllCalls), "; "))
		}
		bad += len(judge(fr))
		for _, ob := range fr.Obs {
			total++
			ok := ob.OK
			if *verbose || !ok {
				st := "?"
				if ob.Result != nil {
					st = ob.Result.Status + " " + strings.Join(ob.Result.Tried, ",")
				}
				mark := "ok  "
				if !ok {
					mark = "FAIL"
				}
				if !*verbose {
					nshown[fr.Fn]++
					if nshown[fr.Fn] > *maxShow {
						continue
					}
					st = ob.Result.Status
					src := ob.Src
					if len(src) > 100 {
						src = src[:100]
					}
					p := ob.Pos
					if i := strings.LastIndex(p, "/"); i >= 0 {
						p = p[i+1:]
					}
					fmt.Printf("   %s %-44s %-8s [%s] %s\n", mark, ob.Name, st, p, src)
					if ob.Result.Part != "" {
						fmt.Printf("        %s\n", truncate(ob.Result.Part, 300))
					}
					continue
				}
				fmt.Printf("   %s %-50s %s   [%s] %s\n", mark, ob.Name, st, ob.Pos, ob.Src)
				if !ok && ob.Result != nil && ob.Result.Model != "" && *verbose {
					mi := modelInts(ob.Result.Model)
					var ks []string
					for k := range mi {
						ks = append(ks, k)
					}
					sort.Strings(ks)
					for _, k := range ks {
						if !strings.Contains(k, "!") || strings.HasPrefix(k, "offset") {
							fmt.Printf("        %s = %s\n", k, mi[k])
						}
					}
				}
			}
		}
	}
	if *stats {
		type row struct {
			name string
			sec  float64
			tr   string
		}
		var rows []row
		byKind := map[string]float64{}
		cnt := map[string]int{}
		for _, fr := range rr.Results {
			for _, ob := range fr.Obs {
				if ob.Result == nil {
					continue
				}
				sec := 0.0
				for _, t := range ob.Result.Tried {
					var s float64
					if i := strings.LastIndex(t, ":"); i >= 0 {
						fmt.Sscanf(strings.TrimSuffix(t[i+1:], "s"), "%f", &s)
					}
					sec += s
				}
				k := ob.Kind
				byKind[k] += sec
				cnt[k]++
				rows = append(rows, row{shortName(fr.Fn) + " " + ob.Name, sec, strings.Join(ob.Result.Tried, ",")})
			}
		}
		sort.Slice(rows, func(i, j int) bool { return rows[i].sec > rows[j].sec })
		for i := 0; i < 25 && i < len(rows); i++ {
			fmt.Printf("  slow %.1fs %s  %s\n", rows[i].sec, rows[i].name, truncate(rows[i].tr, 150))
		}
		for _, k := range sortedKeys(cnt) {
			fmt.Printf("  kind %-10s n=%4d solver-seconds=%.1f\n", k, cnt[k], byKind[k])
		}
	}
	fmt.Printf("obligations: %d, failed/errored: %d   (load %.1fs, vc %.1fs, solve %.1fs)\n", total, bad, rr.Loaded.LoadSeconds, rr.VCSeconds, rr.SolveSeconds)
	if bad > 0 {
		os.Exit(1)
	}
}

func obOK(ob *Obligation) bool {
	if ob.Result == nil {
		return false
	}
	if ob.Cover {
		return ob.Result.Status != "unsat" && ob.Result.Status != "error"
	}
	return ob.Result.Status == "unsat"
}


// loaderEnv: environment for `go list` run by go/packages inside /repo (workspace mode:
// no -mod flag; newer toolchain selected explicitly; never touch the network).
func loaderEnv() []string {
	var env []string
	for _, kv := range os.Environ() {
		if strings.HasPrefix(kv, "GOFLAGS=") || strings.HasPrefix(kv, "GOTOOLCHAIN=") || strings.HasPrefix(kv, "GOPROXY=") || strings.HasPrefix(kv, "PATH=") || strings.HasPrefix(kv, "GOSUMDB=") {
			continue
		}
		env = append(env, kv)
	}
	env = append(env, "GOFLAGS=", "GOTOOLCHAIN=local", "GOPROXY=off", "PATH=/opt/veriftools/go1.26.8/bin:"+os.Getenv("PATH"))
	return env
}
