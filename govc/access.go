package main

import "fmt"

// Element access goes through uninterpreted accessors idx_S(A, off, k) == (select A (+ off k))
// and sidx(id, off, k) == sbyte(id, off+k) so that quantifier triggers bind the logical index k
// directly (z3 normalises (+ off (- n 1)) and a trigger (select A (+ off k)) would never match).

func (e *Enc) elemAt(inner Term, off, i Term) Term {
	es := elemSortOf(inner.Sort)
	if off.S == "0" {
		return Select(inner, i)
	}
	name := "idx_" + sanitize(es)
	if _, ok := e.funs[name]; !ok {
		e.declareFun(name, []string{inner.Sort, "Int", "Int"}, es)
		e.addAxiom(fmt.Sprintf("(forall ((a %s) (o Int) (k Int)) (! (= (%s a o k) (select a (+ o k))) :pattern ((%s a o k))))", inner.Sort, name, name))
	}
	return app(es, name, inner, off, i)
}

func (e *Enc) strAt(id, off, i Term) Term {
	e.declareFun("sbyte", []string{"Int", "Int"}, "Int")
	if off.S == "0" {
		return app(SInt, "sbyte", id, i)
	}
	if _, ok := e.funs["sidx"]; !ok {
		e.declareFun("sidx", []string{"Int", "Int", "Int"}, "Int")
		e.addAxiom("(forall ((s Int) (o Int) (k Int)) (! (= (sidx s o k) (sbyte s (+ o k))) :pattern ((sidx s o k))))")
	}
	return app(SInt, "sidx", id, off, i)
}

// isErrorSentinel: global prefix "G_<pkg>.<Name>" of a standard-library error sentinel.
func isErrorSentinel(prefix string) bool {
	for _, p := range []string{"G_io.EOF", "G_io.ErrUnexpectedEOF", "G_strconv.ErrRange", "G_strconv.ErrSyntax", "G_io.ErrShortWrite", "G_io.ErrNoProgress"} {
		if prefix == p {
			return true
		}
	}
	return false
}
