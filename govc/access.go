package main

import "fmt"

// Element access goes through uninterpreted accessors idx_S(A, off, k) == (select A (+ off k))
// and sidx(id, off, k) == sbyte(id, off+k) so that quantifier triggers bind the logical index k
// directly (z3 normalises (+ off (- n 1)) and a trigger (select A (+ off k)) would never match).

// peelOffset splits an offset term built by Add(base, d1), Add(Add(base,d1),d2)... into the
// innermost base and the sum of the added displacements, so that all views of the same backing
// array use the same accessor base (a sub-slice x[1:] indexes idx(A, off, 1+j), which matches
// quantified facts stated over idx(A, off, k)).
func peelOffset(off, i Term) (Term, Term) {
	for len(off.S) > 3 && off.S[:3] == "(+ " {
		// split "(+ a b)" at top level
		body := off.S[3 : len(off.S)-1]
		depth := 0
		cut := -1
		for k := 0; k < len(body); k++ {
			switch body[k] {
			case '(':
				depth++
			case ')':
				depth--
			case ' ':
				if depth == 0 && cut < 0 {
					cut = k
				}
			}
		}
		if cut < 0 {
			break
		}
		a, b := body[:cut], body[cut+1:]
		// only binary sums are produced by Add
		d := 0
		binary := true
		for k := 0; k < len(b); k++ {
			switch b[k] {
			case '(':
				d++
			case ')':
				d--
			case ' ':
				if d == 0 {
					binary = false
				}
			}
		}
		if !binary {
			break
		}
		off = Term{a, SInt}
		i = Add(Term{b, SInt}, i)
	}
	return off, i
}

func (e *Enc) elemAt(inner Term, off, i Term) Term {
	es := elemSortOf(inner.Sort)
	off, i = peelOffset(off, i)
	if off.S == "0" {
		return Select(inner, i)
	}
	name := "idx_" + sanitize(es)
	if _, ok := e.funs[name]; !ok {
		e.declareFun(name, []string{inner.Sort, "Int", "Int"}, es)
		e.addAxiom(fmt.Sprintf("(forall ((a %s) (o Int) (k Int)) (! (= (%s a o k) (select a (+ o k))) :pattern ((%s a o k))))", inner.Sort, name, name))
	}
	return app(es, name, inner, off, i)
}

func (e *Enc) strAt(id, off, i Term) Term {
	e.declareFun("sbyte", []string{"Int", "Int"}, "Int")
	off, i = peelOffset(off, i)
	if off.S == "0" {
		return app(SInt, "sbyte", id, i)
	}
	if _, ok := e.funs["sidx"]; !ok {
		e.declareFun("sidx", []string{"Int", "Int", "Int"}, "Int")
		e.addAxiom("(forall ((s Int) (o Int) (k Int)) (! (= (sidx s o k) (sbyte s (+ o k))) :pattern ((sidx s o k))))")
	}
	return app(SInt, "sidx", id, off, i)
}

// isErrorSentinel: global prefix "G_<pkg>.<Name>" of a standard-library error sentinel.
func isErrorSentinel(prefix string) bool {
	for _, p := range []string{"G_io.EOF", "G_io.ErrUnexpectedEOF", "G_strconv.ErrRange", "G_strconv.ErrSyntax", "G_io.ErrShortWrite", "G_io.ErrNoProgress", "G_reporter.ErrInvalidSource"} {
		if prefix == p {
			return true
		}
	}
	return false
}
