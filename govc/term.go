package main

import (
	"fmt"
	"go/types"
	"sort"
	"strings"
)

// Term is an SMT-LIB term with its sort.
type Term struct {
	S    string
	Sort string
}

const (
	SInt  = "Int"
	SBool = "Bool"
	SArr  = "(Array Int Int)"
	SArrB = "(Array Int Bool)"
)

func arrSort(elem string) string { return "(Array Int " + elem + ")" }

func I(n int64) Term {
	if n < 0 {
		return Term{fmt.Sprintf("(- %d)", -n), SInt}
	}
	return Term{fmt.Sprintf("%d", n), SInt}
}
func IStr(s string) Term {
	if strings.HasPrefix(s, "-") {
		return Term{"(- " + s[1:] + ")", SInt}
	}
	return Term{s, SInt}
}
func B(b bool) Term {
	if b {
		return Term{"true", SBool}
	}
	return Term{"false", SBool}
}

var TrueT = B(true)
var FalseT = B(false)

func app(sort string, op string, args ...Term) Term {
	var sb strings.Builder
	sb.WriteString("(")
	sb.WriteString(op)
	for _, a := range args {
		sb.WriteString(" ")
		sb.WriteString(a.S)
	}
	sb.WriteString(")")
	return Term{sb.String(), sort}
}

func And(ts ...Term) Term {
	var xs []Term
	for _, t := range ts {
		if t.S == "true" {
			continue
		}
		if t.S == "false" {
			return FalseT
		}
		xs = append(xs, t)
	}
	if len(xs) == 0 {
		return TrueT
	}
	if len(xs) == 1 {
		return xs[0]
	}
	return app(SBool, "and", xs...)
}
func Or(ts ...Term) Term {
	var xs []Term
	for _, t := range ts {
		if t.S == "false" {
			continue
		}
		if t.S == "true" {
			return TrueT
		}
		xs = append(xs, t)
	}
	if len(xs) == 0 {
		return FalseT
	}
	if len(xs) == 1 {
		return xs[0]
	}
	return app(SBool, "or", xs...)
}
func Not(t Term) Term {
	if t.S == "true" {
		return FalseT
	}
	if t.S == "false" {
		return TrueT
	}
	if strings.HasPrefix(t.S, "(not ") {
		return Term{t.S[5 : len(t.S)-1], SBool}
	}
	return app(SBool, "not", t)
}
func Implies(a, b Term) Term {
	if a.S == "true" {
		return b
	}
	if a.S == "false" || b.S == "true" {
		return TrueT
	}
	return app(SBool, "=>", a, b)
}
func Eq(a, b Term) Term {
	if a.S == b.S {
		return TrueT
	}
	return app(SBool, "=", a, b)
}
func Ite(c, a, b Term) Term {
	if c.S == "true" {
		return a
	}
	if c.S == "false" {
		return b
	}
	if a.S == b.S {
		return a
	}
	return app(a.Sort, "ite", c, a, b)
}
// small-integer literal value of a term ("17", "(- 3)")
func litVal(t Term) (int64, bool) {
	s := t.S
	neg := false
	if strings.HasPrefix(s, "(- ") && strings.HasSuffix(s, ")") && !strings.Contains(s[3:], " ") {
		neg = true
		s = s[3 : len(s)-1]
	}
	if s == "" || len(s) > 15 {
		return 0, false
	}
	var n int64
	for _, c := range s {
		if c < '0' || c > '9' {
			return 0, false
		}
		n = n*10 + int64(c-'0')
	}
	if neg {
		n = -n
	}
	return n, true
}

func cmpFold(op string, a, b Term, f func(x, y int64) bool) Term {
	if x, ok := litVal(a); ok {
		if y, ok := litVal(b); ok {
			return B(f(x, y))
		}
	}
	return app(SBool, op, a, b)
}
func Lt(a, b Term) Term { return cmpFold("<", a, b, func(x, y int64) bool { return x < y }) }
func Le(a, b Term) Term { return cmpFold("<=", a, b, func(x, y int64) bool { return x <= y }) }
func Gt(a, b Term) Term { return cmpFold(">", a, b, func(x, y int64) bool { return x > y }) }
func Ge(a, b Term) Term { return cmpFold(">=", a, b, func(x, y int64) bool { return x >= y }) }
func Add(a, b Term) Term {
	if a.S == "0" {
		return b
	}
	if b.S == "0" {
		return a
	}
	if x, ok := litVal(a); ok {
		if y, ok := litVal(b); ok {
			return I(x + y)
		}
	}
	return app(SInt, "+", a, b)
}
func Sub(a, b Term) Term {
	if b.S == "0" {
		return a
	}
	if x, ok := litVal(a); ok {
		if y, ok := litVal(b); ok {
			return I(x - y)
		}
	}
	return app(SInt, "-", a, b)
}
func Mul(a, b Term) Term {
	if x, ok := litVal(a); ok {
		if y, ok := litVal(b); ok && x > -(1<<30) && x < 1<<30 && y > -(1<<30) && y < 1<<30 {
			return I(x * y)
		}
	}
	return app(SInt, "*", a, b)
}

// Go semantics for / and % truncate toward zero; SMT div/mod are Euclidean.
func GoDiv(a, b Term) Term {
	// if a >= 0 then (div a b)  [b>0: floor = trunc; b<0: SMT div rounds so that remainder>=0: a div b with b<0 equals -(a div -b) = trunc]
	// else -((-a) div b)
	return Ite(Ge(a, I(0)), app(SInt, "div", a, b), app(SInt, "-", app(SInt, "div", app(SInt, "-", a), b)))
}
func GoMod(a, b Term) Term {
	// a - b*trunc(a/b)
	return Ite(Ge(a, I(0)), app(SInt, "mod", a, b), app(SInt, "-", app(SInt, "mod", app(SInt, "-", a), b)))
}
func Select(a, i Term) Term {
	// element sort: strip "(Array Int " prefix
	es := elemSortOf(a.Sort)
	return app(es, "select", a, i)
}
func Store(a, i, v Term) Term { return app(a.Sort, "store", a, i, v) }

func elemSortOf(arr string) string {
	if !strings.HasPrefix(arr, "(Array Int ") {
		panic("not an array sort: " + arr)
	}
	return arr[len("(Array Int ") : len(arr)-1]
}

func Forall(vars []string, body Term) Term {
	if len(vars) == 0 || body.S == "true" {
		return body
	}
	var sb strings.Builder
	sb.WriteString("(forall (")
	for _, v := range vars {
		sb.WriteString("(" + v + " Int)")
	}
	sb.WriteString(") ")
	sb.WriteString(body.S)
	sb.WriteString(")")
	return Term{sb.String(), SBool}
}
func Exists(vars []string, body Term) Term {
	var sb strings.Builder
	sb.WriteString("(exists (")
	for _, v := range vars {
		sb.WriteString("(" + v + " Int)")
	}
	sb.WriteString(") ")
	sb.WriteString(body.S)
	sb.WriteString(")")
	return Term{sb.String(), SBool}
}

// ---------------------------------------------------------------------------
// Type flattening: every Go type becomes a list of leaves (suffix, sort).

type Leaf struct {
	Suffix string
	Sort   string
	Typ    types.Type // Go type of the leaf where meaningful (ints: for ranges)
}

// Value is a flattened symbolic value.
type Value struct {
	Typ    types.Type
	L      []Term
	Place  *Place    // non-nil for pointers to local cells / places known at translation time
	Clo    *Closure  // non-nil for closures known statically
	SpecSl bool      // spec-level slice: L = [contents (Array Int X), off, len]
	Nil    bool      // the literal nil in a specification
	Guard  *guardSrc // the value was loaded from a lock-guarded field (maps: contents need the lock)
}

// refMarker tags leaves that hold heap references (see registerRefLeaves).
var refMarker types.Type = types.Typ[types.UnsafePointer]

func sortOfBasic(b *types.Basic) string {
	switch {
	case b.Info()&types.IsBoolean != 0:
		return SBool
	case b.Info()&types.IsInteger != 0:
		return SInt
	case b.Info()&types.IsFloat != 0:
		return SInt // opaque
	case b.Kind() == types.UnsafePointer:
		return SInt
	case b.Kind() == types.UntypedNil:
		return SInt
	}
	return SInt
}

func isString(t types.Type) bool {
	b, ok := t.Underlying().(*types.Basic)
	return ok && b.Info()&types.IsString != 0
}

func flatten(t types.Type) []Leaf {
	switch u := t.Underlying().(type) {
	case *types.Basic:
		if u.Info()&types.IsString != 0 {
			return []Leaf{{".id", SInt, nil}, {".off", SInt, nil}, {".len", SInt, nil}}
		}
		if u.Info()&types.IsComplex != 0 {
			return []Leaf{{".re", SInt, nil}, {".im", SInt, nil}}
		}
		return []Leaf{{"", sortOfBasic(u), t}}
	case *types.Slice:
		return []Leaf{{".arr", SInt, refMarker}, {".off", SInt, nil}, {".len", SInt, nil}, {".cap", SInt, nil}}
	case *types.Interface:
		return []Leaf{{".typ", SInt, nil}, {".val", SInt, nil}}
	case *types.Struct:
		var out []Leaf
		for i := 0; i < u.NumFields(); i++ {
			f := u.Field(i)
			for _, l := range flatten(f.Type()) {
				out = append(out, Leaf{"." + f.Name() + l.Suffix, l.Sort, l.Typ})
			}
		}
		if len(out) == 0 {
			return nil
		}
		return out
	case *types.Array:
		var out []Leaf
		for _, l := range flatten(u.Elem()) {
			out = append(out, Leaf{".arr" + l.Suffix, arrSort(l.Sort), nil})
		}
		return out
	case *types.Tuple:
		var out []Leaf
		for i := 0; i < u.Len(); i++ {
			for _, l := range flatten(u.At(i).Type()) {
				out = append(out, Leaf{fmt.Sprintf(".%d%s", i, l.Suffix), l.Sort, l.Typ})
			}
		}
		return out
	case *types.Pointer, *types.Map, *types.Chan:
		return []Leaf{{"", SInt, refMarker}}
	case *types.Signature:
		return []Leaf{{"", SInt, nil}}
	case *types.TypeParam:
		return []Leaf{{"", SInt, nil}}
	}
	panic(fmt.Sprintf("flatten: unsupported type %v (%T)", t, t.Underlying()))
}

// fieldRange returns the [lo,hi) leaf range of field i in struct type st.
func fieldRange(st *types.Struct, idx int) (int, int) {
	lo := 0
	for i := 0; i < idx; i++ {
		lo += len(flatten(st.Field(i).Type()))
	}
	return lo, lo + len(flatten(st.Field(idx).Type()))
}

func tupleRange(tp *types.Tuple, idx int) (int, int) {
	lo := 0
	for i := 0; i < idx; i++ {
		lo += len(flatten(tp.At(i).Type()))
	}
	return lo, lo + len(flatten(tp.At(idx).Type()))
}

// intRange returns (lo,hi,ok) numeric range of an integer type as decimal strings.
func intRange(t types.Type) (string, string, bool) {
	b, ok := t.Underlying().(*types.Basic)
	if !ok || b.Info()&types.IsInteger == 0 {
		return "", "", false
	}
	switch b.Kind() {
	case types.Int8:
		return "-128", "127", true
	case types.Int16:
		return "-32768", "32767", true
	case types.Int32:
		return "-2147483648", "2147483647", true
	case types.Int, types.Int64, types.UntypedInt, types.UntypedRune:
		return "-9223372036854775808", "9223372036854775807", true
	case types.Uint8:
		return "0", "255", true
	case types.Uint16:
		return "0", "65535", true
	case types.Uint32:
		return "0", "4294967295", true
	case types.Uint, types.Uint64, types.Uintptr:
		return "0", "18446744073709551615", true
	}
	return "", "", false
}

func intBits(t types.Type) (bits int, signed bool, ok bool) {
	b, ok2 := t.Underlying().(*types.Basic)
	if !ok2 || b.Info()&types.IsInteger == 0 {
		return 0, false, false
	}
	switch b.Kind() {
	case types.Int8:
		return 8, true, true
	case types.Int16:
		return 16, true, true
	case types.Int32:
		return 32, true, true
	case types.Int, types.Int64, types.UntypedInt, types.UntypedRune:
		return 64, true, true
	case types.Uint8:
		return 8, false, true
	case types.Uint16:
		return 16, false, true
	case types.Uint32:
		return 32, false, true
	case types.Uint, types.Uint64, types.Uintptr:
		return 64, false, true
	}
	return 0, false, false
}

func pow2(n int) string {
	// decimal string of 2^n, n<=64
	v := new(bigInt).lsh1(n)
	return v.String()
}

// tiny helper to avoid importing math/big everywhere
type bigInt struct{ s string }

func (b *bigInt) lsh1(n int) *bigInt {
	// compute 2^n via repeated doubling on decimal string
	digits := []byte{1}
	for i := 0; i < n; i++ {
		carry := byte(0)
		for j := 0; j < len(digits); j++ {
			d := digits[j]*2 + carry
			digits[j] = d % 10
			carry = d / 10
		}
		if carry > 0 {
			digits = append(digits, carry)
		}
	}
	var sb strings.Builder
	for j := len(digits) - 1; j >= 0; j-- {
		sb.WriteByte('0' + digits[j])
	}
	b.s = sb.String()
	return b
}
func (b *bigInt) String() string { return b.s }

// typeKey gives a short SMT-safe identifier for a Go type, used in heap array names.
func typeKey(t types.Type) string {
	s := types.TypeString(t, func(p *types.Package) string { return p.Name() })
	r := strings.NewReplacer("*", "P", "[", "L", "]", "R", ".", "_", " ", "", "{", "", "}", "", "/", "_", ",", "_", "(", "", ")", "", ";", "_", "-", "_")
	s = r.Replace(s)
	if len(s) > 60 {
		s = s[:60] + fmt.Sprintf("_%x", hashStr(s))
	}
	return s
}

func hashStr(s string) uint32 {
	var h uint32 = 2166136261
	for i := 0; i < len(s); i++ {
		h ^= uint32(s[i])
		h *= 16777619
	}
	return h
}

func sortedKeys[V any](m map[string]V) []string {
	ks := make([]string, 0, len(m))
	for k := range m {
		ks = append(ks, k)
	}
	sort.Strings(ks)
	return ks
}
