package main

import (
	"fmt"
	"strings"

	"golang.org/x/tools/go/ssa"
	"golang.org/x/tools/go/ssa/ssautil"
)

// Package invariants over initialise-once globals ("ginv E over g1, g2").
//
// Justification, re-established on every run:
//   (1) E holds when the package initialiser returns (an obligation of init, discharged by SMT);
//   (2) every global it speaks about is stored only by the package initialiser, and the value
//       loaded from it is only ever indexed for reading, measured (len/cap) or ranged over -
//       it is never stored, passed to a call, sliced, converted or captured, so nobody else can
//       reach the backing array (syntactic scan over the SSA of the whole package; reported as
//       obligations with back end "ssa-scan");
// hence E holds at the entry of every other function of the package, where it is assumed.

func ginvsFor(db *ContractDB, pkgPath string) []*GInv {
	var out []*GInv
	for _, g := range db.GInvs {
		if g.Pkg == pkgPath {
			out = append(out, g)
		}
	}
	return out
}

func isPkgInit(fn *ssa.Function) bool {
	return fn.Pkg != nil && fn.Parent() == nil && fn.Name() == "init" && fn.Synthetic != ""
}

func isInitClosure(fn *ssa.Function) bool {
	for p := fn.Parent(); p != nil; p = p.Parent() {
		if isPkgInit(p) {
			return true
		}
	}
	return false
}

// VerifyGInvScan: the immutability half (2) for one invariant.
func VerifyGInvScan(prog *ssa.Program, gi *GInv) *FuncResult {
	res := &FuncResult{Fn: "ginv " + gi.Pkg + ": " + gi.Src}
	var pkg *ssa.Package
	for _, p := range prog.AllPackages() {
		if p.Pkg.Path() == gi.Pkg {
			pkg = p
		}
	}
	if pkg == nil {
		res.Errs = append(res.Errs, "package not loaded: "+gi.Pkg)
		return res
	}
	// all functions of the package, including closures, methods and generic instances
	var fns []*ssa.Function
	for fn := range ssautil.AllFunctions(prog) {
		f := fn
		for f.Parent() != nil {
			f = f.Parent()
		}
		if f.Origin() != nil {
			f = f.Origin()
		}
		if f.Pkg == pkg {
			fns = append(fns, fn)
		}
	}
	for _, gname := range gi.Globals {
		g, ok := pkg.Members[gname].(*ssa.Global)
		ob := &Obligation{Name: "immutable:" + gname, Kind: "ginv", Fn: res.Fn, Goal: TrueT,
			Src: gname + " is written only by the package initialiser and its value is only indexed for reading, measured or ranged over"}
		if !ok {
			ob.Result = &SolveResult{Status: "unknown", Solver: "ssa-scan", Output: "no such package-level variable"}
			res.Obs = append(res.Obs, ob)
			continue
		}
		var bad []string
		for _, fn := range fns {
			for _, b := range fn.Blocks {
				for _, ins := range b.Instrs {
					for _, opp := range ins.Operands(nil) {
						if *opp != ssa.Value(g) {
							continue
						}
						where := fmt.Sprintf("%s: %s", fn.String(), prog.Fset.Position(ins.Pos()))
						switch x := ins.(type) {
						case *ssa.Store:
							if x.Addr == ssa.Value(g) && isPkgInit(fn) {
								continue
							}
							bad = append(bad, "stored outside init or used as a stored value ("+where+")")
						case *ssa.UnOp:
							// load: every use of the loaded value must be read-only
							if r := readOnlyUses(x); r != "" {
								bad = append(bad, r+" ("+where+")")
							}
						case *ssa.DebugRef:
						case *ssa.IndexAddr:
							// element of an array-typed global: only loads of the element
							if x.X != ssa.Value(g) {
								bad = append(bad, "address used as an index ("+where+")")
								continue
							}
							for _, rr := range *x.Referrers() {
								switch y := rr.(type) {
								case *ssa.UnOp, *ssa.DebugRef:
								default:
									_ = y
									bad = append(bad, fmt.Sprintf("element address used by %T (%s)", rr, where))
								}
							}
						default:
							bad = append(bad, fmt.Sprintf("address used by %T (%s)", ins, where))
						}
					}
				}
			}
		}
		if len(bad) == 0 {
			ob.Result = &SolveResult{Status: "unsat", Solver: "ssa-scan"}
		} else {
			ob.Result = &SolveResult{Status: "sat", Solver: "ssa-scan", Model: strings.Join(bad, "; ")}
		}
		res.Obs = append(res.Obs, ob)
	}
	return res
}

// readOnlyUses: "" when the slice/array value v is only indexed for reading, measured or
// ranged over.
func readOnlyUses(v ssa.Value) string {
	refs := v.Referrers()
	if refs == nil {
		return ""
	}
	for _, r := range *refs {
		switch x := r.(type) {
		case *ssa.DebugRef:
		case *ssa.IndexAddr:
			if x.X != v {
				return "used as an index"
			}
			for _, rr := range *x.Referrers() {
				switch y := rr.(type) {
				case *ssa.UnOp, *ssa.DebugRef:
				case *ssa.Store:
					if y.Addr == ssa.Value(x) {
						return "element stored"
					}
					return "element address stored"
				default:
					return fmt.Sprintf("element address used by %T", rr)
				}
			}
		case *ssa.Index:
		case *ssa.Range:
		case *ssa.Call:
			if b, ok := x.Call.Value.(*ssa.Builtin); ok && (b.Name() == "len" || b.Name() == "cap") {
				continue
			}
			return "passed to a call"
		default:
			return fmt.Sprintf("used by %T", r)
		}
	}
	return ""
}
