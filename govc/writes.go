package main

import (
	"fmt"
	"go/token"
	"strings"
)

// checkWrite (contracts with the clause "writesonly"): the frame condition checked at return
// sites only sees the net effect of a function; a location that is overwritten and restored
// before returning passes it although other goroutines can observe the intermediate value.
// With writesonly every single store is an obligation: the written object was allocated by
// this activation, or the location is named by the modifies clause.
func (fv *FuncVerifier) checkWrite(st *State, p *Place, pos token.Pos) {
	if fv.fc == nil || !fv.fc.WritesOnly || (!fv.fc.HasModifies && !fv.fc.HasWrites) || fv.pre == nil || p == nil {
		return
	}
	var obj *Term
	switch p.Kind {
	case PHeap:
		obj = &p.Obj
	case PElem:
		obj = &p.Arr
	case PGlobal:
	default:
		return
	}
	for _, l := range flatten(p.Typ) {
		name := p.Prefix + l.Suffix
		goal := fv.writeAllowed(name, obj)
		fv.addOb(st, "frame", fmt.Sprintf("write[%s]", name), goal, "every store goes to an object allocated here or to a location in the modifies clause (no transient modification)", pos)
	}
}

func (fv *FuncVerifier) writeAllowed(name string, obj *Term) Term {
	var alts []Term
	if obj != nil {
		alts = append(alts, Ge(*obj, fv.pre.hwm))
	}
	allows := fv.frameAllows()
	if fv.fc.HasWrites {
		if !fv.writesDone {
			fv.writesDone = true
			fv.writeAllows = fv.allowsFor(fv.fc.Writes)
		}
		allows = fv.writeAllows
	}
	for _, a := range allows {
		if a.prefix == "*" {
			return TrueT
		}
		if strings.HasPrefix(name, a.prefix) {
			if a.obj == nil {
				return TrueT
			}
			if obj != nil {
				alts = append(alts, Eq(*obj, *a.obj))
			}
		}
	}
	if len(alts) == 0 {
		return FalseT
	}
	return Or(alts...)
}

// unknownCallee: under "writesonly" a callee without a contract (and not covered by an assumed
// purity declaration) may write anywhere; the discipline is modular, so that is an obligation
// that fails until the callee gets a contract.
func (fv *FuncVerifier) unknownCallee(st *State, what string, pos token.Pos) {
	if fv.fc == nil || !fv.fc.WritesOnly {
		return
	}
	fv.addOb(st, "frame", fmt.Sprintf("call[%s]", shortName(what)), FalseT, "callee without a contract: what it writes is unknown (writesonly)", pos)
}
