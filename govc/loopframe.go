package main

import (
	"fmt"
	"go/types"
	"os"
	"strings"

	"golang.org/x/tools/go/ssa"
)

// Entry-relative loop frames ("loopframes" clause of a function contract).
//
// The ordinary loop havoc forgets every heap array the loop body may write (per field, per
// element type), for all objects. A loop that only writes
//   - fields of objects held in local variables it does not re-assign,
//   - objects it allocates itself,
//   - elements of slices whose header lives in such an object or in a local variable and is only
//     ever replaced by append/reslicing of itself,
// cannot touch any other object that existed when the loop was entered. For such a loop the
// havocked versions are related to the versions at loop entry:
//
//     forall r :: r existed at loop entry && r is none of the named objects/arrays
//                 ==> new[r] == entry[r]
//
// so facts about objects created before the loop (e.g. by earlier iterations of an enclosing
// loop) survive the loop without being restated in its invariants. The analysis is syntactic
// over the SSA of the loop body and gives up (ordinary havoc) on anything it does not recognise:
// calls with effects, stores through pointers of unknown origin, goroutines, defers.

type frameRoot struct {
	prefix string    // heap prefix the root belongs to ("H_T.f" / "E_elem")
	cell   ssa.Value // local cell (Alloc), or nil
	val    ssa.Value // register/parameter holding the pointer or slice, or nil
	fields []int     // field path from the pointer to the slice header (E_ roots through a field)
	slice  bool      // the root names an array (of a slice) rather than an object
}

type loopFrameInfo struct {
	ok    bool
	why   string
	roots []frameRoot
}

type entryFrame struct {
	prevEpoch int
	prevPref  map[string]int
	hwm       Term
	allowed   map[string][]Term // heap prefix -> objects/arrays that may change although they are old
}

func (fv *FuncVerifier) loopFrameFor(li *loopInfo) *loopFrameInfo {
	lf := &loopFrameInfo{ok: true}
	fail := func(format string, a ...any) {
		if lf.ok {
			lf.ok = false
			lf.why = fmt.Sprintf(format, a...)
		}
	}
	inLoop := func(v ssa.Value) bool {
		ins, ok := v.(ssa.Instruction)
		return ok && ins.Block() != nil && li.body[ins.Block()]
	}
	// storesTo: the stores to a local cell inside the loop body
	storesTo := func(c ssa.Value) []*ssa.Store {
		var out []*ssa.Store
		if c.Referrers() == nil {
			return nil
		}
		for _, r := range *c.Referrers() {
			if s, ok := r.(*ssa.Store); ok && s.Addr == c && li.body[s.Block()] {
				out = append(out, s)
			}
		}
		return out
	}
	var isFreshObj func(v ssa.Value, depth int) bool
	isFreshObj = func(v ssa.Value, depth int) bool {
		if depth > 4 {
			return false
		}
		switch x := v.(type) {
		case *ssa.Alloc:
			return inLoop(x)
		case *ssa.MakeSlice, *ssa.MakeMap:
			return inLoop(v)
		case *ssa.UnOp:
			// load of a variable that is declared inside the loop body (so it holds nothing from
			// before the iteration) and only ever receives fresh objects
			if c, ok := x.X.(*ssa.Alloc); ok && x.Op.String() == "*" && inLoop(c) {
				ss := storesTo(c)
				if len(ss) == 0 {
					return false
				}
				for _, s := range ss {
					if !isFreshObj(s.Val, depth+1) {
						return false
					}
				}
				return true
			}
		}
		return false
	}
	// pointerRoot classifies the base pointer of a field store.
	pointerRoot := func(prefix string, b ssa.Value) {
		switch x := b.(type) {
		case *ssa.Alloc:
			if inLoop(x) {
				return // fresh object
			}
			lf.roots = append(lf.roots, frameRoot{prefix: prefix, val: x})
			return
		case *ssa.Parameter, *ssa.FreeVar:
			lf.roots = append(lf.roots, frameRoot{prefix: prefix, val: x})
			return
		case *ssa.UnOp:
			if x.Op.String() != "*" {
				break
			}
			if isFreshObj(x, 0) {
				return
			}
			switch c := x.X.(type) {
			case *ssa.Alloc:
				if len(storesTo(c)) == 0 {
					lf.roots = append(lf.roots, frameRoot{prefix: prefix, cell: c})
					return
				}
			case *ssa.FreeVar:
				if len(storesTo(c)) == 0 {
					lf.roots = append(lf.roots, frameRoot{prefix: prefix, cell: c})
					return
				}
			}
		}
		fail("store through a pointer of unknown origin: %v", b)
	}
	// selfUpdate: v is append(load(place), ...) / a reslicing of load(place) / a fresh slice
	var derivesFrom func(v ssa.Value, isPlace func(ssa.Value) bool, depth int) bool
	derivesFrom = func(v ssa.Value, isPlace func(ssa.Value) bool, depth int) bool {
		if depth > 4 {
			return false
		}
		switch x := v.(type) {
		case *ssa.Call:
			if b, ok := x.Call.Value.(*ssa.Builtin); ok && b.Name() == "append" {
				return derivesFrom(x.Call.Args[0], isPlace, depth+1)
			}
		case *ssa.Slice:
			return derivesFrom(x.X, isPlace, depth+1)
		case *ssa.UnOp:
			if x.Op.String() == "*" && isPlace(x.X) {
				return true
			}
		case *ssa.MakeSlice:
			return inLoop(x)
		case *ssa.Const:
			return x.IsNil()
		}
		return false
	}
	// sliceRoot classifies the slice value whose elements are written.
	var sliceRoot func(prefix string, s ssa.Value, depth int)
	sliceRoot = func(prefix string, s ssa.Value, depth int) {
		if depth > 4 {
			fail("slice of unknown origin")
			return
		}
		switch x := s.(type) {
		case *ssa.MakeSlice:
			if inLoop(x) {
				return
			}
		case *ssa.Call:
			if b, ok := x.Call.Value.(*ssa.Builtin); ok && b.Name() == "append" {
				sliceRoot(prefix, x.Call.Args[0], depth+1)
				return
			}
		case *ssa.Slice:
			// reslicing of a slice, or slicing of a local array
			if a, ok := x.X.(*ssa.Alloc); ok {
				if inLoop(a) {
					return
				}
				lf.roots = append(lf.roots, frameRoot{prefix: prefix, val: a, slice: true})
				return
			}
			sliceRoot(prefix, x.X, depth+1)
			return
		case *ssa.UnOp:
			if x.Op.String() != "*" {
				break
			}
			switch p := x.X.(type) {
			case *ssa.Alloc: // local slice variable
				if inLoop(p) {
					// declared in the loop body: every value it holds must be fresh or derived from itself
					for _, st := range storesTo(p) {
						if !derivesFrom(st.Val, func(v ssa.Value) bool { return v == ssa.Value(p) }, 0) {
							fail("local slice %s receives a slice of unknown origin", p.Comment)
							return
						}
					}
					return
				}
				for _, st := range storesTo(p) {
					if !derivesFrom(st.Val, func(v ssa.Value) bool { return v == ssa.Value(p) }, 0) {
						fail("local slice %s receives a slice of unknown origin", p.Comment)
						return
					}
				}
				lf.roots = append(lf.roots, frameRoot{prefix: prefix, cell: p, slice: true})
				return
			case *ssa.FieldAddr: // slice header in a field of an object
				base := p.X
				// every store to this field in the loop must derive from the field itself
				// (by struct type and field, whatever the base: the field of a freshly allocated
				// object may have been initialised from an old slice, e.g. in a composite literal)
				samePlace := func(v ssa.Value) bool {
					fa, ok := v.(*ssa.FieldAddr)
					if !ok || fa.Field != p.Field {
						return false
					}
					return types.Identical(fa.X.Type(), p.X.Type())
				}
				ok := true
				for b := range li.body {
					for _, ins := range b.Instrs {
						if st, isSt := ins.(*ssa.Store); isSt && samePlace(st.Addr) {
							if !derivesFrom(st.Val, samePlace, 0) {
								ok = false
							}
						}
					}
				}
				if !ok {
					fail("a slice field is assigned a slice of unknown origin")
					return
				}
				if isFreshObj(base, 0) {
					return
				}
				switch bb := base.(type) {
				case *ssa.UnOp:
					if c, isA := bb.X.(*ssa.Alloc); isA && bb.Op.String() == "*" && len(storesTo(c)) == 0 {
						lf.roots = append(lf.roots, frameRoot{prefix: prefix, cell: c, fields: []int{p.Field}, slice: true})
						return
					}
					if c, isF := bb.X.(*ssa.FreeVar); isF && bb.Op.String() == "*" && len(storesTo(c)) == 0 {
						lf.roots = append(lf.roots, frameRoot{prefix: prefix, cell: c, fields: []int{p.Field}, slice: true})
						return
					}
				case *ssa.Parameter:
					lf.roots = append(lf.roots, frameRoot{prefix: prefix, val: bb, fields: []int{p.Field}, slice: true})
					return
				case *ssa.Alloc:
					if !inLoop(bb) {
						lf.roots = append(lf.roots, frameRoot{prefix: prefix, val: bb, fields: []int{p.Field}, slice: true})
					}
					return
				}
			}
		}
		fail("elements of a slice of unknown origin are written: %v", s)
	}
	elemPrefix := func(s ssa.Value) string {
		if sl, ok := s.Type().Underlying().(*types.Slice); ok {
			return "E_" + typeKey(sl.Elem())
		}
		return ""
	}
	var scan func(fn *ssa.Function, blocks []*ssa.BasicBlock, depth int)
	scan = func(fn *ssa.Function, blocks []*ssa.BasicBlock, depth int) {
		for _, b := range blocks {
			for _, ins := range b.Instrs {
				if !lf.ok {
					return
				}
				switch x := ins.(type) {
				case *ssa.Store:
					p, c := heapPrefixOfAddr(x.Addr)
					if c != nil {
						continue // local variable
					}
					if depth > 0 {
						fail("a helper executed in place stores to the heap")
						return
					}
					if p == "?" || p == "" || strings.HasPrefix(p, "G_") {
						if strings.HasPrefix(p, "G_") {
							continue // globals are havocked per variable as before
						}
						fail("store to an unclassified location")
						return
					}
					// walk the address chain down to its base
					v := x.Addr
					viaIndex := false
					var idxSlice ssa.Value
				walk:
					for {
						switch y := v.(type) {
						case *ssa.FieldAddr:
							v = y.X
						case *ssa.IndexAddr:
							viaIndex = true
							idxSlice = y.X
							break walk
						default:
							break walk
						}
					}
					if viaIndex {
						if _, isSlice := idxSlice.Type().Underlying().(*types.Slice); isSlice {
							sliceRoot(p, idxSlice, 0)
						} else if a, isAlloc := idxSlice.(*ssa.Alloc); isAlloc { // *[N]T local array
							if !inLoop(a) {
								lf.roots = append(lf.roots, frameRoot{prefix: p, val: a, slice: true})
							}
						} else {
							fail("indexed store into an array of unknown origin")
						}
					} else {
						pointerRoot(p, v)
					}
				case *ssa.MapUpdate:
					// map contents: versions are per map object and are havocked as before (M_)
				case *ssa.RunDefers:
					if hasDefer(fn) {
						fail("deferred calls may run in the loop")
					}
				case *ssa.Send, *ssa.Select, *ssa.Go, *ssa.Defer:
					fail("%T in the loop", ins)
				case ssa.CallInstruction:
					cc := x.Common()
					if bi, ok := cc.Value.(*ssa.Builtin); ok {
						switch bi.Name() {
						case "append":
							if p := elemPrefix(cc.Args[0]); p != "" {
								if depth > 0 {
									fail("a helper executed in place appends")
									return
								}
								sliceRoot(p, cc.Args[0], 0)
							}
						case "copy":
							if p := elemPrefix(cc.Args[0]); p != "" {
								if depth > 0 {
									fail("a helper executed in place copies")
									return
								}
								sliceRoot(p, cc.Args[0], 0)
							}
						}
						continue
					}
					if cc.IsInvoke() {
						name := ifaceMethodName(cc)
						if ic := fv.db.Funcs[name]; ic != nil && ic.HasModifies && len(ic.Modifies) == 0 {
							continue
						}
						if fv.db.purePrefixOf(name) != "" {
							continue
						}
						fail("interface call with effects: %s", name)
						return
					}
					callee := cc.StaticCallee()
					if callee == nil {
						fail("dynamic call")
						return
					}
					if nat := nativeSpec(callee.String()); nat != nil {
						if nat.pure {
							continue
						}
						fail("library call with effects: %s", callee)
						return
					}
					if c := fv.db.Funcs[callee.String()]; c != nil {
						if c.HasModifies && len(c.Modifies) == 0 {
							continue // pure by contract
						}
						fail("call of %s, which has effects", shortName(callee.String()))
						return
					}
					if fv.db.purePrefixOf(callee.String()) != "" {
						continue
					}
					if depth < 3 && inlinable(fv.fn, callee) {
						scan(callee, callee.Blocks, depth+1)
						continue
					}
					fail("call of %s without a contract", shortName(callee.String()))
					return
				}
			}
		}
	}
	var blocks []*ssa.BasicBlock
	for _, b := range fv.fn.Blocks {
		if li.body[b] {
			blocks = append(blocks, b)
		}
	}
	scan(fv.fn, blocks, 0)
	if os.Getenv("GOVC_DEBUG_FRAME") != "" {
		if lf.ok {
			fmt.Fprintf(os.Stderr, "loop %d of %s: entry-relative frame with %d named roots\n", li.ord, fv.fn, len(lf.roots))
		} else {
			fmt.Fprintf(os.Stderr, "loop %d of %s: ordinary havoc (%s)\n", li.ord, fv.fn, lf.why)
		}
	}
	return lf
}

func hasDefer(fn *ssa.Function) bool {
	for _, b := range fn.Blocks {
		for _, ins := range b.Instrs {
			if _, ok := ins.(*ssa.Defer); ok {
				return true
			}
		}
	}
	return false
}

func sameBase(a, b ssa.Value) bool {
	if a == b {
		return true
	}
	ua, ok1 := a.(*ssa.UnOp)
	ub, ok2 := b.(*ssa.UnOp)
	return ok1 && ok2 && ua.Op == ub.Op && ua.X == ub.X
}

// entryFrameTerms evaluates the named roots in the state at loop entry.
func (fv *FuncVerifier) entryFrameTerms(st *State, lf *loopFrameInfo) (allowed map[string][]Term, ok bool) {
	allowed = map[string][]Term{}
	for _, r := range lf.roots {
		var v Value
		switch {
		case r.cell != nil:
			cv, has := st.cells[r.cell]
			if !has {
				return nil, false
			}
			if _, esc := st.promoted[r.cell]; esc {
				cv = st.load(st.resolve(&Place{Kind: PLocal, Typ: cv.Typ, Cell: r.cell}))
			}
			v = cv
		case r.val != nil:
			v = st.get(r.val)
		default:
			return nil, false
		}
		if len(r.fields) > 0 {
			if v.Place != nil && v.Place.Kind == PLocal {
				// the object is still a local of this activation: its slice field
				p := v.Place
				for _, f := range r.fields {
					p = p.field(f)
				}
				v = st.load(p)
			} else {
				p := st.placeOfPtr(v)
				for _, f := range r.fields {
					p = p.field(f)
				}
				v = st.load(p)
			}
		} else if v.Place != nil && v.Place.Kind == PLocal && !r.slice {
			continue // a pointer to an object that has not escaped: not a heap object yet
		}
		if len(v.L) == 0 {
			return nil, false
		}
		allowed[r.prefix] = append(allowed[r.prefix], v.L[0])
	}
	return allowed, true
}

// entryFrameAxiom: called when a heap array version created by a framed loop havoc is
// materialised.
func (e *Enc) entryFrameAxiom(name string, t Term, sort string, ep int) {
	ef := e.entryFrames[ep]
	if ef == nil || !strings.HasPrefix(sort, "(Array") {
		return
	}
	if strings.HasPrefix(name, "LK") || strings.HasPrefix(name, "GH_") || strings.HasPrefix(name, "M_") || strings.HasPrefix(name, "G_") || strings.HasPrefix(name, "C_") {
		return
	}
	prev := e.version(name, sort, epochFor(name, ef.prevEpoch, ef.prevPref))
	r := "r!e"
	conds := []string{
		fmt.Sprintf("(or (and (< 0 %s) (< %s %s)) (and (< %s 0) (<= 0 (subowner %s)) (< (subowner %s) %s)))", r, r, ef.hwm.S, r, r, r, ef.hwm.S),
	}
	e.declareFun("subowner", []string{"Int"}, "Int")
	for p, objs := range ef.allowed {
		if name == p || strings.HasPrefix(name, p+".") || strings.HasPrefix(name, p) && strings.HasPrefix(p, "E_") {
			for _, o := range objs {
				conds = append(conds, fmt.Sprintf("(not (= %s %s))", r, o.S))
			}
		}
	}
	e.addAxiom(fmt.Sprintf("(forall ((%s Int)) (! (=> (and %s) (= (select %s %s) (select %s %s))) :pattern ((select %s %s))))", r, strings.Join(conds, " "), t.S, r, prev.S, r, t.S, r))
}
