package main

import (
	"fmt"
	"os"
	"strings"
)

var unreachableBranches []string

// baseName strips the per-path suffix "~n" of an obligation name.
func baseName(n string) string {
	if i := strings.LastIndex(n, "~"); i >= 0 {
		allDigits := i+1 < len(n)
		for _, c := range n[i+1:] {
			if c < '0' || c > '9' {
				allDigits = false
			}
		}
		if allDigits {
			return n[:i]
		}
	}
	return n
}

// judge decides each obligation. Proof obligations need "unsat". Vacuity canaries ("cover")
// are grouped per site: a site is fine when at least one path reaching it is not refuted
// (sat or unknown); it fails when every path to it is unsat (unreachable => contradictory
// assumptions or dead code under the precondition).
func judge(fr *FuncResult) (failed []*Obligation) {
	coverAny := map[string]bool{}
	coverSeen := map[string][]*Obligation{}
	for _, ob := range fr.Obs {
		if !ob.Cover || ob.Info {
			continue
		}
		b := baseName(ob.Name)
		coverSeen[b] = append(coverSeen[b], ob)
		if ob.Result != nil && ob.Result.Status != "unsat" && ob.Result.Status != "error" {
			coverAny[b] = true
		}
	}
	// return sites: every return site must be reachable under the precondition (otherwise its
	// postconditions hold vacuously), except those the contract declares dead code
	// ("unreachable ret k"); a declared-dead site that is reachable is reported as well, so the
	// declaration cannot go stale silently.
	for b := range coverSeen {
		if !strings.HasPrefix(b, "cover:ret") {
			continue
		}
		var k int
		fmt.Sscanf(strings.TrimPrefix(b, "cover:ret"), "%d", &k)
		if fr.Contract != nil && fr.Contract.DeadRets[k] {
			coverAny[b] = !coverAny[b]
			if !coverAny[b] {
				// reachable although declared unreachable: make sure it is a definite answer
				definite := false
				for _, ob := range coverSeen[b] {
					if ob.Result != nil && ob.Result.Status == "sat" {
						definite = true
					}
				}
				if !definite {
					coverAny[b] = true // unknown: cannot tell; keep quiet
				}
			}
		}
	}
	for _, ob := range fr.Obs {
		if ob.Info {
			ob.OK = true
			if ob.Result != nil && ob.Result.Status == "unsat" {
				unreachableBranches = append(unreachableBranches, shortName(fr.Fn)+" "+strings.TrimPrefix(ob.Name, "edge:"))
				if os.Getenv("GOVC_EDGE_COVER") != "" {
					fmt.Fprintf(os.Stderr, "unreachable branch: %s %s (%s)\n", fr.Fn, ob.Name, ob.Pos)
				}
			}
			continue
		}
		if ob.Cover {
			ob.OK = coverAny[baseName(ob.Name)]
			if !ob.OK {
				// report once per site
				if coverSeen[baseName(ob.Name)][0] == ob {
					failed = append(failed, ob)
				}
			}
			continue
		}
		if ob.Skipped {
			ob.OK = true
			continue
		}
		ob.OK = ob.Result != nil && ob.Result.Status == "unsat"
		if !ob.OK {
			failed = append(failed, ob)
		}
	}
	return failed
}
