package main

import "strings"

// baseName strips the per-path suffix "~n" of an obligation name.
func baseName(n string) string {
	if i := strings.LastIndex(n, "~"); i >= 0 {
		allDigits := i+1 < len(n)
		for _, c := range n[i+1:] {
			if c < '0' || c > '9' {
				allDigits = false
			}
		}
		if allDigits {
			return n[:i]
		}
	}
	return n
}

// judge decides each obligation. Proof obligations need "unsat". Vacuity canaries ("cover")
// are grouped per site: a site is fine when at least one path reaching it is not refuted
// (sat or unknown); it fails when every path to it is unsat (unreachable => contradictory
// assumptions or dead code under the precondition).
func judge(fr *FuncResult) (failed []*Obligation) {
	coverAny := map[string]bool{}
	coverSeen := map[string][]*Obligation{}
	for _, ob := range fr.Obs {
		if !ob.Cover {
			continue
		}
		b := baseName(ob.Name)
		coverSeen[b] = append(coverSeen[b], ob)
		if ob.Result != nil && ob.Result.Status != "unsat" && ob.Result.Status != "error" {
			coverAny[b] = true
		}
	}
	// return sites: a site that is unreachable under the precondition is dead code, not vacuity;
	// only a function none of whose return sites is reachable is reported
	anyRet := false
	nRet := 0
	for b, ok := range coverAny {
		_ = ok
		if strings.HasPrefix(b, "cover:ret") {
			anyRet = true
		}
	}
	for b := range coverSeen {
		if strings.HasPrefix(b, "cover:ret") {
			nRet++
		}
	}
	if anyRet {
		for b := range coverSeen {
			if strings.HasPrefix(b, "cover:ret") {
				coverAny[b] = true
			}
		}
	}
	_ = nRet
	for _, ob := range fr.Obs {
		if ob.Cover {
			ob.OK = coverAny[baseName(ob.Name)]
			if !ob.OK {
				// report once per site
				if coverSeen[baseName(ob.Name)][0] == ob {
					failed = append(failed, ob)
				}
			}
			continue
		}
		if ob.Skipped {
			ob.OK = true
			continue
		}
		ob.OK = ob.Result != nil && ob.Result.Status == "unsat"
		if !ob.OK {
			failed = append(failed, ob)
		}
	}
	return failed
}
