package main

import (
	"os"
	"fmt"
	"go/constant"
	"go/token"
	"go/types"
	"sort"

	"golang.org/x/tools/go/ssa"
)

// Obligation is one proof goal: pc ==> goal.
type Obligation struct {
	Name    string
	Kind    string // pre, post, inv-init, inv-keep, bounds, nil, panic, frame, decr, unwind, lemma, cover, div, assert
	Fn      string
	PC      []Term
	Goal    Term
	Cover   bool // expected SAT (vacuity canary): checks pc ∧ goal satisfiable
	OK      bool // set by judge()
	Skipped bool // obligation kind not part of the property being checked
	Src     string
	Pos     string
	Trace   []string
	Result  *SolveResult
	Extra   []string // extra axioms (lemma instances) local to this obligation
	ModelVars []string
	Parts   []string // names of the conjuncts (frame obligations: heap arrays)
	Info    bool // informational canary: reported, never a failure
	ClauseProps []string // the properties the clause behind this obligation belongs to (nil: the function's)
}

type loopInfo struct {
	header *ssa.BasicBlock
	body   map[*ssa.BasicBlock]bool
	ord    int
	lc     *LoopContract
	// syntactic modification summary
	cells    map[ssa.Value]bool
	prefixes map[string]bool
	havocAll bool
	havocKeep bool // arbitrary heap changes except this goroutine's lock set
	allocs   bool
	frame    *loopFrameInfo
	entry    *State // the state in which the loop was last entered (atentry in invariants)
}

type FuncVerifier struct {
	enc      *Enc
	fn       *ssa.Function
	fc       *FuncContract
	db       *ContractDB
	obs      []*Obligation
	loops    map[*ssa.BasicBlock]*loopInfo
	paths    int
	maxPaths int
	pre      *State            // entry snapshot (for old)
	params   map[string]Value  // parameter entry values by name
	retOrd   map[*ssa.Return]int
	callIdx  map[string]int
	obCount  map[string]int
	errs     []string
	nameCells map[string][]*ssa.Alloc
	ghost    map[string]Value
	retStates int
	panicPaths int
	locks    *lockCfg
	allows   []frameAllow
	allowsDone bool
	localHints map[*ssa.Alloc]string // SMT name hints of named locals (names.go)
	renamed    []string // contract names resolved through contracts/names.json (names.go)
	inlineRets *[]*State // non-nil while a callee is executed in place (inline.go)
	writeAllows []frameAllow
	writesDone  bool
	mergeMode bool
	fork     *forkOut
	ccMode   int
	sumParamFn map[*ssa.Parameter]*ssa.Function
	sumDepth   int
	sumKeep  bool
}

func (fv *FuncVerifier) addOb(st *State, kind, name string, goal Term, src string, pos token.Pos) *Obligation {
	fv.obCount[name]++
	if n := fv.obCount[name]; n > 1 {
		name = fmt.Sprintf("%s~%d", name, n)
	}
	ob := &Obligation{Name: name, Kind: kind, Fn: fv.fn.String(), PC: append([]Term(nil), st.pc...), Goal: goal, Src: src, Trace: append([]string(nil), st.trace...)}
	if pos.IsValid() {
		p := fv.enc.prog.Fset.Position(pos)
		ob.Pos = fmt.Sprintf("%s:%d", p.Filename, p.Line)
	}
	fv.obs = append(fv.obs, ob)
	return ob
}

func (fv *FuncVerifier) fail(format string, a ...any) {
	fv.errs = append(fv.errs, fmt.Sprintf(format, a...))
}

// ---------------------------------------------------------------------------
// loop analysis

func (fv *FuncVerifier) findLoops() {
	fn := fv.fn
	fv.loops = map[*ssa.BasicBlock]*loopInfo{}
	var headers []*ssa.BasicBlock
	for _, b := range fn.Blocks {
		for _, succ := range b.Succs {
			if succ.Dominates(b) {
				// back edge b -> succ
				li := fv.loops[succ]
				if li == nil {
					li = &loopInfo{header: succ, body: map[*ssa.BasicBlock]bool{succ: true}, cells: map[ssa.Value]bool{}, prefixes: map[string]bool{}}
					fv.loops[succ] = li
					headers = append(headers, succ)
				}
				// collect body: reverse reachability from b up to header
				stack := []*ssa.BasicBlock{b}
				for len(stack) > 0 {
					x := stack[len(stack)-1]
					stack = stack[:len(stack)-1]
					if li.body[x] {
						continue
					}
					li.body[x] = true
					for _, p := range x.Preds {
						stack = append(stack, p)
					}
				}
			}
		}
	}
	sort.Slice(headers, func(i, j int) bool { return headers[i].Index < headers[j].Index })
	// loops reordered since the contracts were written (same header lines, another order): a
	// "loop k" clause follows its loop, and obligations keep the contract's numbering
	contractOrd := map[int]int{} // current ordinal -> contract ordinal
	if fv.fc != nil && len(fv.fc.Loops) > 0 && inlineDepth == 0 {
		if rm := loopRemap(fv.fn); rm != nil {
			for k, i := range rm {
				contractOrd[i] = k
			}
			fv.renamed = append(fv.renamed, "loops reordered; loop clauses follow their loops by header line")
		}
	}
	for i, h := range headers {
		li := fv.loops[h]
		li.ord = i
		if k, ok := contractOrd[i]; ok {
			li.ord = k
		}
		if fv.fc != nil {
			li.lc = fv.fc.Loops[li.ord]
		}
		fv.summarizeLoop(li)
	}
	if fv.fc != nil {
		for k := range fv.fc.Loops {
			if k >= len(headers) {
				fv.fail("contract names loop %d but function has %d loops", k, len(headers))
			}
		}
	}
}

// rootOfAddr walks FieldAddr/IndexAddr chains to the root pointer value.
func rootOfAddr(v ssa.Value) (root ssa.Value, viaIndex bool) {
	for {
		switch x := v.(type) {
		case *ssa.FieldAddr:
			v = x.X
		case *ssa.IndexAddr:
			// index into slice or *array
			if _, isSlice := x.X.Type().Underlying().(*types.Slice); isSlice {
				return x.X, true
			}
			// pointer to array
			return x.X, true
		default:
			return v, false
		}
	}
}

func (fv *FuncVerifier) summarizeLoop(li *loopInfo) {
	fv.sumKeep = false
	for b := range li.body {
		for _, ins := range b.Instrs {
			was := li.havocAll
			fv.summarizeInstr(ins, li.cells, li.prefixes, &li.havocAll, &li.allocs)
			if !was && li.havocAll && os.Getenv("GOVC_DEBUG_HAVOC") != "" {
				fmt.Fprintf(os.Stderr, "loop summary of %s: whole heap havoc because of %v\n", fv.fn, ins)
			}
		}
	}
	li.havocKeep = fv.sumKeep
	fv.sumKeep = false
}

// heapPrefixOfAddr returns the heap array prefix a store through addr would modify ("" for local cells).
func heapPrefixOfAddr(addr ssa.Value) (prefix string, cell ssa.Value) {
	// reconstruct path
	var path []string
	v := addr
	for {
		switch x := v.(type) {
		case *ssa.FieldAddr:
			st := x.X.Type().Underlying().(*types.Pointer).Elem().Underlying().(*types.Struct)
			path = append([]string{st.Field(x.Field).Name()}, path...)
			v = x.X
			continue
		case *ssa.IndexAddr:
			var et types.Type
			switch u := x.X.Type().Underlying().(type) {
			case *types.Slice:
				et = u.Elem()
			case *types.Pointer:
				et = u.Elem().Underlying().(*types.Array).Elem()
			}
			p := "E_" + typeKey(et)
			for _, f := range path {
				p += "." + f
			}
			return p, nil
		case *ssa.Alloc:
			if _, isArr := x.Type().Underlying().(*types.Pointer).Elem().Underlying().(*types.Array); isArr {
				return "E_", nil
			}
			return "", x
		case *ssa.FreeVar:
			return "", x
		case *ssa.Global:
			p := "G_" + x.Pkg.Pkg.Name() + "." + x.Name()
			for _, f := range path {
				p += "." + f
			}
			return p, nil
		default:
			// pointer value from elsewhere
			pt, ok := v.Type().Underlying().(*types.Pointer)
			if !ok {
				return "?", nil
			}
			var p string
			if _, isStruct := pt.Elem().Underlying().(*types.Struct); isStruct {
				p = "H_" + typeKey(pt.Elem())
			} else if at, isArr := pt.Elem().Underlying().(*types.Array); isArr {
				p = "E_" + typeKey(at.Elem())
			} else {
				p = "C_" + typeKey(pt.Elem())
			}
			for _, f := range path {
				p += "." + f
			}
			return p, nil
		}
	}
}

func (fv *FuncVerifier) summarizeInstr(ins ssa.Instruction, cells map[ssa.Value]bool, prefixes map[string]bool, havocAll *bool, allocs *bool) {
	switch x := ins.(type) {
	case *ssa.Store:
		p, c := heapPrefixOfAddr(x.Addr)
		if c != nil {
			cells[c] = true
		} else if p == "?" {
			*havocAll = true
		} else {
			prefixes[p] = true
		}
	case *ssa.MapUpdate:
		prefixes["M_"] = true
	case *ssa.Alloc, *ssa.MakeSlice, *ssa.MakeMap, *ssa.MakeChan:
		*allocs = true
		if a, ok := x.(*ssa.Alloc); ok {
			// re-executed alloc re-initialises its cell
			cells[a] = true
		}
	case *ssa.Send, *ssa.Select, *ssa.Go:
		fv.sumKeep = true // arbitrary heap changes, but this goroutine's lock set is kept
	case *ssa.Range:
		cells[x] = true
	case *ssa.Next:
		// advancing an iterator changes its hidden position (the Range instruction itself sits in
		// front of the loop)
		cells[x.Iter] = true
	case ssa.CallInstruction:
		*allocs = true
		if _, isDefer := x.(*ssa.Defer); isDefer {
			// executed at function exit; not in loop
			return
		}
		cc := x.Common()
		if b, ok := cc.Value.(*ssa.Builtin); ok {
			switch b.Name() {
			case "append":
				st := cc.Args[0].Type().Underlying().(*types.Slice)
				prefixes["E_"+typeKey(st.Elem())] = true
			case "copy":
				if st, ok := cc.Args[0].Type().Underlying().(*types.Slice); ok {
					prefixes["E_"+typeKey(st.Elem())] = true
				}
			case "delete", "clear":
				prefixes["M_"] = true
			}
			return
		}
		callee := cc.StaticCallee()
		var closureFn *ssa.Function
		if callee == nil && !cc.IsInvoke() {
			// closure created in this function?
			if mc := fv.staticClosure(cc.Value); mc != nil {
				closureFn = mc.Fn.(*ssa.Function)
				// captured cells stored by the closure
				for i, fvv := range closureFn.FreeVars {
					if closureStores(closureFn, fvv) {
						if a, ok := mc.Bindings[i].(*ssa.Alloc); ok {
							cells[a] = true
						} else if fv2, ok := mc.Bindings[i].(*ssa.FreeVar); ok {
							cells[fv2] = true
						}
					}
				}
				callee = closureFn
			}
		}
		if callee == nil && !cc.IsInvoke() {
			if p := paramOfValue(cc.Value); p != nil {
				if f := fv.sumParamFn[p]; f != nil {
					callee = f
				}
			}
		}
		if callee == nil {
			if cc.IsInvoke() {
				if ic := fv.db.Funcs[ifaceMethodName(cc)]; ic != nil && ic.HasModifies {
					fv.modPrefixes(ic, prefixes, havocAll)
					return
				}
				if fv.db.purePrefixOf(ifaceMethodName(cc)) != "" {
					return
				}
			}
			*havocAll = true
			return
		}
		if nat := nativeSpec(callee.String()); nat != nil {
			if nat.pure {
				return
			}
			for _, p := range nat.prefixes {
				prefixes[p] = true
			}
			if nat.havocAll {
				*havocAll = true
			}
			// receiver cell havoc for local receivers
			if nat.modRecv && len(cc.Args) > 0 {
				_, c := heapPrefixOfAddr(cc.Args[0])
				if c != nil {
					cells[c] = true
				} else {
					p, _ := heapPrefixOfAddr(cc.Args[0])
					prefixes[p] = true
				}
			}
			return
		}
		c := fv.db.Funcs[callee.String()]
		if c == nil && callee.Origin() != nil {
			c = fv.db.Funcs[callee.Origin().String()] // an instance of a generic function under contract
		}
		if c == nil {
			if fv.db.purePrefixOf(callee.String()) != "" {
				return
			}
			if fv.sumDepth < 3 && inlinable(fv.fn, callee) {
				// a small loop-free helper of the repository (the executor runs it in place): what
				// it can modify is what its own instructions can modify
				fv.sumDepth++
				for _, b := range callee.Blocks {
					for _, i2 := range b.Instrs {
						fv.summarizeInstr(i2, cells, prefixes, havocAll, allocs)
					}
				}
				fv.sumDepth--
				return
			}
			*havocAll = true
			return
		}
		if c.Inline {
			// function-typed parameters bound to static functions at this call site: calls through
			// them inside the inlined body are calls of those functions
			saved := fv.sumParamFn
			fv.sumParamFn = map[*ssa.Parameter]*ssa.Function{}
			for k, v := range saved {
				fv.sumParamFn[k] = v
			}
			for i, p := range callee.Params {
				if i < len(cc.Args) {
					if f, ok := cc.Args[i].(*ssa.Function); ok {
						fv.sumParamFn[p] = f
					}
				}
			}
			for _, b := range callee.Blocks {
				for _, i2 := range b.Instrs {
					fv.summarizeInstr(i2, cells, prefixes, havocAll, allocs)
				}
			}
			fv.sumParamFn = saved
			return
		}
		if !c.HasModifies {
			*havocAll = true
			return
		}
		fv.modPrefixes(c, prefixes, havocAll)
	}
}

func closureStores(fn *ssa.Function, fvv *ssa.FreeVar) bool {
	for _, b := range fn.Blocks {
		for _, ins := range b.Instrs {
			if st, ok := ins.(*ssa.Store); ok {
				_, c := heapPrefixOfAddr(st.Addr)
				if c == fvv {
					return true
				}
			}
			// nested closures capturing it: be conservative
			if mc, ok := ins.(*ssa.MakeClosure); ok {
				for _, bnd := range mc.Bindings {
					if bnd == fvv {
						return true
					}
				}
			}
			if call, ok := ins.(ssa.CallInstruction); ok {
				for _, a := range call.Common().Args {
					if r, _ := rootOfAddr(a); r == fvv {
						return true
					}
				}
			}
		}
	}
	return false
}

// staticClosure finds the MakeClosure a call value refers to (directly or via a local cell with a single store).
func (fv *FuncVerifier) staticClosure(v ssa.Value) *ssa.MakeClosure {
	switch x := v.(type) {
	case *ssa.MakeClosure:
		return x
	case *ssa.UnOp:
		if x.Op == token.MUL {
			if a, ok := x.X.(*ssa.Alloc); ok {
				var found *ssa.MakeClosure
				n := 0
				for _, ref := range *a.Referrers() {
					if st, ok := ref.(*ssa.Store); ok && st.Addr == a {
						n++
						if mc, ok := st.Val.(*ssa.MakeClosure); ok {
							found = mc
						}
					}
				}
				if n == 1 {
					return found
				}
			}
		}
	}
	return nil
}

// modPrefixes converts a contract's modifies clauses into heap prefixes (type-based, conservative).
func (fv *FuncVerifier) modPrefixes(c *FuncContract, prefixes map[string]bool, havocAll *bool) {
	if c.Pure {
		return
	}
	callee := fv.enc.prog.FuncValue
	_ = callee
	fn := findFunc(fv.enc.prog, c.Name)
	for _, m := range c.Modifies {
		if sc, isCall := m.E.(*SCall); isCall && sc.Fn == "anything" {
			fv.sumKeep = true
			continue
		}
		ps, ok := modClausePrefixes(fv.enc, fn, c, m.E)
		if !ok {
			*havocAll = true
			return
		}
		for _, p := range ps {
			prefixes[p] = true
		}
	}
}

// ---------------------------------------------------------------------------
// constants

func (st *State) constValue(c *ssa.Const) Value {
	t := c.Type()
	if c.Value == nil {
		return st.enc.zero(t)
	}
	switch u := t.Underlying().(type) {
	case *types.Basic:
		switch {
		case u.Info()&types.IsBoolean != 0:
			return Value{Typ: t, L: []Term{B(constant.BoolVal(c.Value))}}
		case u.Info()&types.IsInteger != 0:
			return Value{Typ: t, L: []Term{IStr(c.Value.ExactString())}}
		case u.Info()&types.IsString != 0:
			return Value{Typ: t, L: st.enc.strConst(constant.StringVal(c.Value))}
		case u.Info()&types.IsFloat != 0:
			name := "fconst_" + sanitize(c.Value.ExactString())
			return Value{Typ: t, L: []Term{st.enc.declare(name, SInt)}}
		}
	case *types.TypeParam:
		return st.enc.zero(t)
	}
	panic(unsupported(fmt.Sprintf("constant of type %v", t)))
}

func (st *State) get(v ssa.Value) Value {
	switch x := v.(type) {
	case *ssa.Const:
		return st.constValue(x)
	case *ssa.Global:
		pt := x.Type().Underlying().(*types.Pointer)
		if at, ok := pt.Elem().Underlying().(*types.Array); ok {
			_ = at
			ref := st.enc.declare("GA_"+sanitize(x.Pkg.Pkg.Name()+"."+x.Name()), SInt)
			return Value{Typ: x.Type(), L: []Term{ref}}
		}
		return Value{Typ: x.Type(), L: []Term{I(0)}, Place: &Place{Kind: PGlobal, Typ: pt.Elem(), Prefix: "G_" + x.Pkg.Pkg.Name() + "." + x.Name()}}
	case *ssa.Function:
		return Value{Typ: x.Type(), L: []Term{st.enc.declare("fn_"+sanitize(x.String()), SInt)}, Clo: &Closure{Fn: x}}
	case *ssa.Builtin:
		return Value{Typ: types.Typ[types.Int], L: []Term{I(0)}}
	case *ssa.FreeVar:
		// pointer to captured cell
		pt := x.Type().Underlying().(*types.Pointer)
		return Value{Typ: x.Type(), L: []Term{I(0)}, Place: &Place{Kind: PLocal, Typ: pt.Elem(), Cell: x}}
	}
	r, ok := st.regs[v]
	if !ok {
		panic(fmt.Sprintf("no value for %s = %v", v.Name(), v))
	}
	return r
}

// paramOfValue: v is a parameter, or (naive SSA form) a load of the local cell that holds a
// parameter and is never assigned anything else.
func paramOfValue(v ssa.Value) *ssa.Parameter {
	if p, ok := v.(*ssa.Parameter); ok {
		return p
	}
	u, ok := v.(*ssa.UnOp)
	if !ok {
		return nil
	}
	a, ok := u.X.(*ssa.Alloc)
	if !ok || a.Referrers() == nil {
		return nil
	}
	var p *ssa.Parameter
	for _, r := range *a.Referrers() {
		if st, ok := r.(*ssa.Store); ok && st.Addr == ssa.Value(a) {
			q, isParam := st.Val.(*ssa.Parameter)
			if !isParam || (p != nil && p != q) {
				return nil
			}
			p = q
		}
	}
	return p
}
