package main

import (
	"go/types"
	"strings"
)

const (
	ccNormal = iota
	ccHavocOnly
	ccPreOnly
)

// purePrefixOf: the assumed-pure package prefix (from `//@ purepkg <path>` lines) that a function
// or interface-method name belongs to, or "".
func (db *ContractDB) purePrefixOf(name string) string {
	n := strings.TrimLeft(name, "(*")
	for _, p := range db.PurePrefixes {
		if strings.HasPrefix(n, p) {
			return p
		}
	}
	return ""
}

// regionHasMaps: does any field of the region have map type (then the map-content version
// array belongs to the region as well)?
func regionHasMaps(env *Env, fields []string) bool {
	for _, tf := range fields {
		i := strings.LastIndex(tf, ".")
		if i < 0 {
			continue
		}
		t := env.resolveType(tf[:i])
		st, ok := t.Underlying().(*types.Struct)
		if !ok {
			continue
		}
		for k := 0; k < st.NumFields(); k++ {
			if st.Field(k).Name() == tf[i+1:] {
				if _, isMap := st.Field(k).Type().Underlying().(*types.Map); isMap {
					return true
				}
			}
		}
	}
	return false
}
