package main

import (
	"encoding/json"
	"fmt"
	"go/types"
	"os"
	"path/filepath"
	"sort"
	"strings"

	"golang.org/x/tools/go/ssa"
)

// Contracts name parameters and local variables (in requires/ensures clauses and above all in
// loop invariants). A pure renaming of a parameter or local in /repo would otherwise make the
// contract fail to bind ("unknown identifier") and raise an alarm on code whose behaviour is
// unchanged. contracts/names.json records, for every function under contract, the names of its
// parameters and named locals in declaration order as they were when the contracts were
// written (`govc names` regenerates it). When a function still has the same number of
// parameters, and the same number of named locals with the same types in the same order, a
// name the contract uses that no longer exists is resolved to the variable now standing in
// its place.

type localName struct {
	Name string `json:"name"`
	Type string `json:"type"`
}

type fnNames struct {
	Params   []string    `json:"params"`
	FreeVars []string    `json:"freevars,omitempty"`
	Locals   []localName `json:"locals"`
	// Loops: one label per loop in header order (the text of the loop's header line from
	// "range"/"for" on): lets "loop k" clauses follow their loops when loops are reordered
	Loops []string `json:"loops,omitempty"`
}

var baselineNames map[string]fnNames

// renamedTo: old name (as the contracts spell it) -> names now standing in its place, over all
// functions under contract. Used as a last resort when a contract identifier is unknown.
var renamedTo = map[string][]string{}

func computeRenames(ld *Loaded) {
	renamedTo = map[string][]string{}
	if ld == nil || ld.Prog == nil {
		return
	}
	add := func(old, now string) {
		if old == now || old == "" || old == "_" {
			return
		}
		for _, x := range renamedTo[old] {
			if x == now {
				return
			}
		}
		renamedTo[old] = append(renamedTo[old], now)
	}
	for _, name := range ld.DB.Order {
		fc := ld.DB.Funcs[name]
		if fc == nil || fc.Assumed || strings.HasPrefix(fc.RelName, "interface ") {
			continue
		}
		fn := findFunc(ld.Prog, name)
		if fn == nil {
			continue
		}
		base, ok := baselineNames[fn.String()]
		if !ok {
			continue
		}
		cur := currentNames(fn)
		if len(base.Params) == len(cur.Params) {
			for i := range cur.Params {
				add(base.Params[i], cur.Params[i])
			}
		}
		if len(base.FreeVars) == len(cur.FreeVars) {
			for i := range cur.FreeVars {
				add(base.FreeVars[i], cur.FreeVars[i])
			}
		}
		if len(base.Locals) == len(cur.Locals) {
			same := true
			for i := range cur.Locals {
				if base.Locals[i].Type != cur.Locals[i].Type {
					same = false
				}
			}
			if same {
				for i := range cur.Locals {
					add(base.Locals[i].Name, cur.Locals[i].Name)
				}
			}
		}
	}
}

func loadBaselineNames(verif string) {
	baselineNames = map[string]fnNames{}
	b, err := os.ReadFile(filepath.Join(verif, "contracts", "names.json"))
	if err != nil {
		return
	}
	_ = json.Unmarshal(b, &baselineNames)
}

func namedAllocs(fn *ssa.Function) []*ssa.Alloc {
	var out []*ssa.Alloc
	for _, b := range fn.Blocks {
		for _, ins := range b.Instrs {
			if x, ok := ins.(*ssa.Alloc); ok {
				if x.Comment != "" && !strings.Contains(x.Comment, "$") && x.Comment != "varargs" && x.Comment != "complit" {
					out = append(out, x)
				}
			}
		}
	}
	// declaration order in the source (block order follows control flow, not the text)
	sort.SliceStable(out, func(i, j int) bool { return out[i].Pos() < out[j].Pos() })
	return out
}

func currentNames(fn *ssa.Function) fnNames {
	var n fnNames
	for _, p := range fn.Params {
		n.Params = append(n.Params, p.Name())
	}
	for _, v := range fn.FreeVars {
		n.FreeVars = append(n.FreeVars, v.Name())
	}
	for _, a := range namedAllocs(fn) {
		n.Locals = append(n.Locals, localName{a.Comment, types.TypeString(a.Type(), nil)})
	}
	n.Loops = loopLabels(fn)
	return n
}

var srcLines = map[string][]string{}

// loopLabels: for every loop header (in block order, the order "loop k" counts in) the text of
// its source line from the keyword "range" (or "for") on; "" when the line cannot be found.
func loopLabels(fn *ssa.Function) []string {
	var headers []*ssa.BasicBlock
	seen := map[*ssa.BasicBlock]bool{}
	for _, b := range fn.Blocks {
		for _, succ := range b.Succs {
			if succ.Dominates(b) && !seen[succ] {
				seen[succ] = true
				headers = append(headers, succ)
			}
		}
	}
	sort.Slice(headers, func(i, j int) bool { return headers[i].Index < headers[j].Index })
	var out []string
	for _, h := range headers {
		label := ""
		// the header's own instructions, or (range loops: the header only holds phis/next) the
		// instructions of its predecessors and successors, all on the loop's header line
		var cands []*ssa.BasicBlock
		cands = append(cands, h)
		cands = append(cands, h.Succs...)
		line := 0
		file := ""
		for _, b := range cands {
			for _, ins := range b.Instrs {
				if p := ins.Pos(); p.IsValid() {
					pp := fn.Prog.Fset.Position(p)
					if line == 0 || (pp.Filename == file && pp.Line < line) {
						line, file = pp.Line, pp.Filename
					}
				}
			}
			if line != 0 && b == h {
				break
			}
		}
		if line > 0 {
			ls, ok := srcLines[file]
			if !ok {
				if b, err := os.ReadFile(file); err == nil {
					ls = strings.Split(string(b), "\n")
				}
				srcLines[file] = ls
			}
			if line-1 < len(ls) {
				t := strings.TrimSpace(ls[line-1])
				if i := strings.Index(t, "range "); i >= 0 {
					t = t[i:]
				} else if i := strings.Index(t, "for "); i >= 0 {
					t = t[i:]
				} else {
					t = ""
				}
				label = strings.TrimSuffix(strings.TrimSpace(t), "{")
				label = strings.TrimSpace(label)
			}
		}
		out = append(out, label)
	}
	return out
}

// loopRemap: contract ordinal -> current ordinal, when the function's loops are the loops the
// contracts were written for in another order (same labels, all distinct and non-empty).
func loopRemap(fn *ssa.Function) map[int]int {
	base, ok := baselineNames[fn.String()]
	if !ok || len(base.Loops) == 0 {
		return nil
	}
	cur := loopLabels(fn)
	if len(cur) != len(base.Loops) {
		return nil
	}
	idx := map[string]int{}
	for i, l := range cur {
		if l == "" {
			return nil
		}
		if _, dup := idx[l]; dup {
			return nil
		}
		idx[l] = i
	}
	out := map[int]int{}
	moved := false
	for k, l := range base.Loops {
		i, ok := idx[l]
		if !ok {
			return nil
		}
		out[k] = i
		if i != k {
			moved = true
		}
	}
	if !moved {
		return nil
	}
	return out
}

// applyNameAliases is called once the verifier knows the function's parameters and named cells.
func (fv *FuncVerifier) applyNameAliases() {
	base, ok := baselineNames[fv.fn.String()]
	if !ok {
		return
	}
	if len(base.Params) == len(fv.fn.Params) {
		for i, p := range fv.fn.Params {
			old := base.Params[i]
			if old == p.Name() || old == "" || old == "_" {
				continue
			}
			if _, taken := fv.params[old]; taken {
				continue
			}
			if v, has := fv.params[p.Name()]; has {
				fv.params[old] = v
				fv.renamed = append(fv.renamed, fmt.Sprintf("parameter %s (was %s)", p.Name(), old))
			}
		}
	}
	allocs := namedAllocs(fv.fn)
	if len(base.Locals) != len(allocs) {
		return
	}
	for i, a := range allocs {
		if base.Locals[i].Type != types.TypeString(a.Type(), nil) {
			return
		}
	}
	for i, a := range allocs {
		old := base.Locals[i].Name
		if old == a.Comment {
			continue
		}
		if _, taken := fv.nameCells[old]; taken {
			// the old name is still in use for another variable: leave it alone
			continue
		}
		fv.nameCells[old] = append(fv.nameCells[old], a)
		fv.renamed = append(fv.renamed, fmt.Sprintf("local %s (was %s)", a.Comment, old))
	}
}

// cmdNames writes contracts/names.json from the current tree.
func cmdNames(args []string) {
	repo, verif := "/repo", "/verif"
	if len(args) > 0 {
		repo = args[0]
	}
	ld, err := loadAll(repo, verif, nil)
	if err != nil {
		fmt.Fprintln(os.Stderr, err)
		os.Exit(2)
	}
	out := map[string]fnNames{}
	for _, name := range ld.DB.Order {
		fc := ld.DB.Funcs[name]
		if fc == nil || fc.Assumed {
			continue
		}
		if ld.Prog == nil || strings.HasPrefix(fc.RelName, "interface ") {
			continue
		}
		fn := findFunc(ld.Prog, name)
		if fn == nil || len(fn.Blocks) == 0 {
			continue
		}
		out[fn.String()] = currentNames(fn)
	}
	b, _ := json.MarshalIndent(out, "", " ")
	if err := os.WriteFile(filepath.Join(verif, "contracts", "names.json"), b, 0o644); err != nil {
		fmt.Fprintln(os.Stderr, err)
		os.Exit(2)
	}
	fmt.Println(len(out), "functions recorded")
}


// renamedFuncs: contract name -> the function now standing in its place. A contract whose
// function no longer exists is bound to the one function of the same package that has no
// contract of its own, the same signature and exactly the recorded shape (parameter names, named
// locals with their types, loop labels): a pure renaming of a helper then does not unbind its
// contract (and those of the functions that call it).
var renamedFuncs = map[string]string{}

func resolveRenamedFuncs(ld *Loaded) {
	renamedFuncs = map[string]string{}
	if ld == nil || ld.Prog == nil {
		return
	}
	idx := funcIndex(ld.Prog)
	sameShape := func(a, b fnNames) bool {
		if len(a.Params) != len(b.Params) || len(a.FreeVars) != len(b.FreeVars) || len(a.Locals) != len(b.Locals) || len(a.Loops) != len(b.Loops) {
			return false
		}
		for i := range a.Params {
			if a.Params[i] != b.Params[i] {
				return false
			}
		}
		for i := range a.Locals {
			if a.Locals[i] != b.Locals[i] {
				return false
			}
		}
		for i := range a.Loops {
			if a.Loops[i] != b.Loops[i] {
				return false
			}
		}
		return true
	}
	var names []string
	for _, n := range ld.DB.Order {
		names = append(names, n)
	}
	for _, name := range names {
		fc := ld.DB.Funcs[name]
		if fc == nil || fc.Assumed || strings.HasPrefix(fc.RelName, "interface ") || strings.Contains(name, "$") {
			continue
		}
		if idx[name] != nil {
			continue
		}
		base, ok := baselineNames[name]
		if !ok {
			continue
		}
		var cands []*ssa.Function
		for fname, f := range idx {
			if f.Pkg == nil || f.Pkg.Pkg.Path() != fc.Pkg || f.Parent() != nil || f.Synthetic != "" || len(f.Blocks) == 0 {
				continue
			}
			if ld.DB.Funcs[fname] != nil {
				continue
			}
			if _, known := baselineNames[fname]; known {
				continue
			}
			// methods stay methods of the same receiver type
			if recvPrefix(name) != recvPrefix(fname) {
				continue
			}
			if sameShape(base, currentNames(f)) {
				cands = append(cands, f)
			}
		}
		if len(cands) != 1 {
			continue
		}
		now := cands[0].String()
		renamedFuncs[name] = now
		ld.DB.Funcs[now] = fc
		baselineNames[now] = base
		// the function's closures keep their ordinals
		for _, n2 := range names {
			if strings.HasPrefix(n2, name+"$") {
				n2now := now + n2[len(name):]
				if idx[n2now] != nil && ld.DB.Funcs[n2now] == nil {
					renamedFuncs[n2] = n2now
					ld.DB.Funcs[n2now] = ld.DB.Funcs[n2]
					if b2, ok := baselineNames[n2]; ok {
						baselineNames[n2now] = b2
					}
				}
			}
		}
	}
	if len(renamedFuncs) > 0 {
		funcIdxAlias(ld.Prog, renamedFuncs)
	}
}

// recvPrefix: "(*pkg.T)." for a method name, "" for a function.
func recvPrefix(name string) string {
	if strings.HasPrefix(name, "(") {
		if i := strings.Index(name, ")."); i > 0 {
			return name[:i+2]
		}
	}
	return ""
}


// SMT symbol names are derived from source names (parameters, captured variables, named
// locals). Solver heuristics are sensitive to symbol names, so a pure renaming in /repo could turn
// a 5-second obligation into a time-out. When the function still has the recorded shape, the
// names the contracts were written against are used for the symbols instead: the queries of a
// renamed function are then textually the queries of the original.
func baselineFor(fn *ssa.Function) (fnNames, bool) {
	key := fn.String()
	if b, ok := baselineNames[key]; ok {
		return b, true
	}
	if o := fn.Origin(); o != nil {
		b, ok := baselineNames[o.String()]
		return b, ok
	}
	return fnNames{}, false
}

func smtParamHint(fn *ssa.Function, i int, cur string) string {
	b, ok := baselineFor(fn)
	if !ok || len(b.Params) != len(fn.Params) || i >= len(b.Params) || b.Params[i] == "" || b.Params[i] == "_" {
		return cur
	}
	return b.Params[i]
}

func smtFreeVarHint(fn *ssa.Function, i int, cur string) string {
	b, ok := baselineFor(fn)
	if !ok || len(b.FreeVars) != len(fn.FreeVars) || i >= len(b.FreeVars) || b.FreeVars[i] == "" {
		return cur
	}
	return b.FreeVars[i]
}

// smtLocalHints: named local -> recorded name, when the locals have the recorded shape.
func smtLocalHints(fn *ssa.Function) map[*ssa.Alloc]string {
	b, ok := baselineFor(fn)
	if !ok {
		return nil
	}
	allocs := namedAllocs(fn)
	if len(allocs) != len(b.Locals) {
		return nil
	}
	out := map[*ssa.Alloc]string{}
	for i, a := range allocs {
		if b.Locals[i].Type != types.TypeString(a.Type(), nil) {
			return nil
		}
		out[a] = b.Locals[i].Name
	}
	return out
}
