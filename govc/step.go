package main

import (
	"os"
	"fmt"
	"go/token"
	"go/types"
	"strings"

	"golang.org/x/tools/go/ssa"
)

type pathEnd struct{}

// run executes from block b (instruction index i) until the path ends; forks recursively.
func (fv *FuncVerifier) runBlock(st *State, b *ssa.BasicBlock) {
	for {
		fv.enterBlockPhis(st, b)
		var next *ssa.BasicBlock
		done := false
		for _, ins := range b.Instrs {
			if _, isPhi := ins.(*ssa.Phi); isPhi {
				continue
			}
			nb, end := fv.step(st, b, ins)
			if end {
				done = true
				break
			}
			if nb != nil {
				next = nb
				break
			}
		}
		if done || next == nil {
			return
		}
		// edge b -> next
		cont := fv.takeEdge(st, b, next)
		if !cont {
			return
		}
		st.prev = b
		b = next
	}
}

func (fv *FuncVerifier) enterBlockPhis(st *State, b *ssa.BasicBlock) {
	// evaluate phis simultaneously
	var vals []Value
	var phis []*ssa.Phi
	for _, ins := range b.Instrs {
		phi, ok := ins.(*ssa.Phi)
		if !ok {
			break
		}
		idx := -1
		for i, p := range b.Preds {
			if p == st.prev {
				idx = i
			}
		}
		if idx < 0 {
			panic("phi without predecessor")
		}
		vals = append(vals, st.get(phi.Edges[idx]))
		phis = append(phis, phi)
	}
	for i, phi := range phis {
		st.regs[phi] = vals[i]
	}
}

// takeEdge handles loop cut points. Returns false if the path ends here.
func (fv *FuncVerifier) takeEdge(st *State, from, to *ssa.BasicBlock) bool {
	li := fv.loops[to]
	if li == nil {
		return true
	}
	isBack := li.body[from] && to.Dominates(from)
	if li.lc != nil && li.lc.Unroll > 0 {
		if isBack {
			st.unroll[to]++
			if st.unroll[to] > li.lc.Unroll {
				// unwinding obligation: this path must be infeasible
				fv.addOb(st, "unwind", fmt.Sprintf("unwind:L%d", li.ord), FalseT, fmt.Sprintf("loop %d unrolled %d times", li.ord, li.lc.Unroll), token.NoPos)
				return false
			}
		} else {
			st.unroll[to] = 0
		}
		return true
	}
	if isBack && st.inLoop[to] {
		// check invariants preserved
		st.prev = from
		env := fv.invEnv(st, li)
		if li.lc != nil {
			basePC := st.pc
			for i, inv := range li.lc.Invariants {
				g := fv.evalBool(env, inv.E)
				ob := fv.addOb(st, "inv-keep", fmt.Sprintf("inv-keep:L%d#%d@b%d", li.ord, i, from.Index), g, inv.Src, token.NoPos)
				ob.PC = append(ob.PC, revealAxioms(fv.enc, inv.Reveal)...)
				if fv.fc.StagedInv {
					st.pc = append(st.pc[:len(st.pc):len(st.pc)], g)
				}
			}
			st.pc = basePC
			if li.lc.Decreases != nil {
				d := fv.evalInt(env, li.lc.Decreases.E)
				d0 := st.decr[to]
				fv.addOb(st, "decr", fmt.Sprintf("decr:L%d@b%d", li.ord, from.Index), And(Ge(d0, I(0)), Lt(d, d0)), li.lc.Decreases.Src, token.NoPos)
			}
		}
		// loop frame: the function's modifies clause is an implicit invariant of every loop
		if !li.havocAll {
			fv.checkFrameFiltered(st, fmt.Sprintf("L%d@b%d", li.ord, from.Index), token.NoPos, func(name string) bool {
				for p := range li.prefixes {
					if strings.HasPrefix(name, p) {
						return true
					}
				}
				return li.havocKeep && !strings.HasPrefix(name, "LK")
			})
		}
		return false
	}
	// loop entry
	st.prev = from
	fv.promoteLocalObjects(st)
	li.entry = st.clone()
	env := fv.invEnv(st, li)
	if li.lc != nil {
		basePC := st.pc
		for i, inv := range li.lc.Invariants {
			g := fv.evalBool(env, inv.E)
			ob := fv.addOb(st, "inv-init", fmt.Sprintf("inv-init:L%d#%d", li.ord, i), g, inv.Src, token.NoPos)
			ob.PC = append(ob.PC, revealAxioms(fv.enc, inv.Reveal)...)
			if fv.fc.StagedInv {
				// staged: an invariant may build on the ones listed before it (proved just above)
				st.pc = append(st.pc[:len(st.pc):len(st.pc)], g)
			}
		}
		st.pc = basePC
	}
	// havoc
	entryCells := map[ssa.Value]Value{}
	for c := range li.cells {
		if v, ok := st.cells[c]; ok && v.Place == nil && v.Clo == nil {
			entryCells[c] = v
		}
	}
	fv.havocLoop(st, li)
	st.inLoop[to] = true
	env = fv.invEnv(st, li)
	if li.lc != nil {
		for _, inv := range li.lc.Invariants {
			st.assume(fv.evalBool(env, inv.E))
		}
		if li.lc.Decreases != nil {
			d := fv.evalInt(env, li.lc.Decreases.E)
			dn := fv.enc.fresh("decr", SInt)
			st.assume(Eq(dn, d))
			st.decr[to] = dn
		}
		// vacuity canary: invariant (and path) satisfiable at loop head
		ob := fv.addOb(st, "cover", fmt.Sprintf("cover:L%d", li.ord), TrueT, "loop invariant satisfiable", token.NoPos)
		ob.Cover = true
		// ... and not only in the state in which the loop was entered: some variable the loop
		// assigns may differ from its entry value (otherwise the invariants pin the loop to its
		// first iteration and every inv-keep is checked for that iteration alone)
		var moved []Term
		for c, ov := range entryCells {
			nv, ok := st.cells[c]
			if !ok || nv.Place != nil || len(nv.L) != len(ov.L) {
				continue
			}
			for i := range nv.L {
				if nv.L[i].Sort == ov.L[i].Sort && nv.L[i].S != ov.L[i].S {
					moved = append(moved, Not(Eq(nv.L[i], ov.L[i])))
				}
			}
		}
		if len(moved) > 0 {
			pob := fv.addOb(st, "cover", fmt.Sprintf("cover:L%d:progress", li.ord), Or(moved...), "under its invariants the loop head admits a state other than the entry state", token.NoPos)
			pob.Cover = true
		}
	}
	return true
}

var edgeCover = os.Getenv("GOVC_EDGE_COVER") != ""

// promoteLocalObjects: objects allocated by this activation that are only known through
// pointers in local variables live in those variables' cells, not in the heap arrays. A loop's
// modification summary is per heap field: a store "p.f = v" through such a pointer would be
// summarised as a write to the heap field while the executor updates the cell - the loop havoc
// would then leave the object untouched and the loop body would be checked for the first
// iteration only. Before a loop is entered every such object therefore becomes a heap object.
func (fv *FuncVerifier) promoteLocalObjects(st *State) {
	for c, v := range st.cells {
		if v.Place != nil && v.Place.Kind == PLocal && v.Clo == nil {
			if _, isObj := v.Typ.Underlying().(*types.Pointer); isObj {
				func() {
					defer func() { _ = recover() }() // cells the promotion cannot handle stay as they are
					st.cells[c] = st.promote(v)
				}()
			}
		}
	}
	for r, v := range st.regs {
		if v.Place != nil && v.Place.Kind == PLocal && v.Clo == nil {
			if _, isObj := v.Typ.Underlying().(*types.Pointer); isObj {
				if _, isAlloc := r.(*ssa.Alloc); isAlloc {
					// the register of an allocation is that object's own address, not a pointer to
					// it held somewhere else: stores through it are summarised as stores to the cell
					if at, ok := v.Place.Cell.(*ssa.Alloc); ok && at == r {
						continue
					}
				}
				func() {
					defer func() { _ = recover() }()
					st.regs[r] = st.promote(v)
				}()
			}
		}
	}
}

func (fv *FuncVerifier) havocLoop(st *State, li *loopInfo) {
	if li.havocAll {
		st.havocAll()
	} else if li.havocKeep {
		// locks acquired/released by lock operations inside the loop are havocked by prefix first
		for p := range li.prefixes {
			if strings.HasPrefix(p, "LK") {
				ep := st.havocPrefix(p)
				fv.enc.loopEpochs[ep] = true
			}
		}
		st.havocAllKeepLocks()
	} else {
		var ef *entryFrame
		if fv.fc.LoopFrames && inlineDepth == 0 {
			if li.frame == nil {
				li.frame = fv.loopFrameFor(li)
			}
			if li.frame.ok {
				if allowed, ok := fv.entryFrameTerms(st, li.frame); ok {
					ef = &entryFrame{prevEpoch: st.epoch, prevPref: copyIntMap(st.prefEp), hwm: st.hwm, allowed: allowed}
					fv.enc.assumedUsed["loop "+fmt.Sprint(li.ord)+" of "+shortName(fv.fn.String())+": entry-relative frame (the loop writes only objects it names or allocates; syntactic analysis, loopframe.go)"] = true
				}
			}
		}
		for p := range li.prefixes {
			ep := st.havocPrefix(p)
			fv.enc.loopEpochs[ep] = true
			if ef != nil {
				fv.enc.entryFrames[ep] = ef
			}
		}
		if li.allocs {
			nh := fv.enc.fresh("hwm", SInt)
			st.assume(Ge(nh, st.hwm))
			st.hwm = nh
		}
	}
	for c := range li.cells {
		old, ok := st.cells[c]
		if !ok {
			if r, isRange := c.(*ssa.Range); isRange {
				if _, ok := st.rangePos[r]; ok {
					np := fv.enc.fresh("rangepos", SInt)
					st.rangePos[r] = np
				}
			}
			continue
		}
		if old.Place != nil || old.Clo != nil {
			// pointer/closure cells modified in a loop: unsupported unless the stored value is the same
			// static closure (e.g. cell re-initialised). Keep.
			continue
		}
		if _, esc := st.promoted[c]; esc {
			hp := st.resolve(&Place{Kind: PLocal, Typ: old.Typ, Cell: c})
			st.store(hp, st.freshValue("havoc", old.Typ))
			continue
		}
		var hint string
		if a, ok := c.(*ssa.Alloc); ok {
			hint = a.Comment
			if h, ok := fv.localHints[a]; ok {
				hint = h
			}
		} else {
			hint = c.Name()
		}
		nv := st.freshValue(hint, old.Typ)
		// whatever the loop body stored there was allocated before this point of the iteration
		st.assumeRefs(nv)
		st.cells[c] = nv
	}
	for r := range st.rangePos {
		if li.cells[r] {
			np := fv.enc.fresh("rangepos", SInt)
			st.rangePos[r] = np
		}
	}
}

// step executes one instruction. Returns the next block (for jumps) or end=true.
func (fv *FuncVerifier) step(st *State, b *ssa.BasicBlock, ins ssa.Instruction) (next *ssa.BasicBlock, end bool) {
	enc := fv.enc
	switch x := ins.(type) {
	case *ssa.DebugRef:
		return nil, false
	case *ssa.Alloc:
		et := x.Type().Underlying().(*types.Pointer).Elem()
		if at, ok := et.Underlying().(*types.Array); ok {
			// arrays live in the element heap
			ref := st.alloc()
			fv.zeroArray(st, ref, at)
			st.regs[x] = Value{Typ: x.Type(), L: []Term{ref}}
			return nil, false
		}
		st.cells[x] = enc.zero(et)
		st.seq++
		st.allocSeq[x] = st.seq
		delete(st.promoted, x)
		st.regs[x] = Value{Typ: x.Type(), L: []Term{I(0)}, Place: &Place{Kind: PLocal, Typ: et, Cell: x}}
	case *ssa.Store:
		addr := st.get(x.Addr)
		val := st.get(x.Val)
		p := fv.derefPlace(st, addr, x.Pos(), x.Addr)
		val.Typ = p.Typ
		fv.checkGuard(st, st.resolve(p), true, x.Pos())
		fv.checkWrite(st, st.resolve(p), x.Pos())
		st.store(p, val)
	case *ssa.UnOp:
		st.regs[x] = fv.unop(st, x)
	case *ssa.BinOp:
		st.regs[x] = fv.binop(st, x.Op, st.get(x.X), st.get(x.Y), x.Type(), x.Pos())
	case *ssa.FieldAddr:
		base := st.get(x.X)
		p := fv.derefPlace(st, base, x.Pos(), x.X)
		st.regs[x] = Value{Typ: x.Type(), L: []Term{I(0)}, Place: p.field(x.Field)}
	case *ssa.Field:
		base := st.get(x.X)
		stt := x.X.Type().Underlying().(*types.Struct)
		lo, hi := fieldRange(stt, x.Field)
		st.regs[x] = Value{Typ: x.Type(), L: base.L[lo:hi]}
	case *ssa.IndexAddr:
		st.regs[x] = fv.indexAddr(st, x)
	case *ssa.Index:
		st.regs[x] = fv.index(st, x)
	case *ssa.Slice:
		st.regs[x] = fv.sliceOp(st, x)
	case *ssa.Convert:
		st.regs[x] = fv.convert(st, st.get(x.X), x.X.Type(), x.Type())
	case *ssa.ChangeType:
		v := st.get(x.X)
		v.Typ = x.Type()
		st.regs[x] = v
	case *ssa.MultiConvert:
		panic(unsupported("MultiConvert"))
	case *ssa.ChangeInterface:
		v := st.get(x.X)
		v.Typ = x.Type()
		st.regs[x] = v
	case *ssa.MakeInterface:
		st.regs[x] = fv.makeInterface(st, st.get(x.X), x.X.Type(), x.Type())
	case *ssa.TypeAssert:
		st.regs[x] = fv.typeAssert(st, x)
	case *ssa.Extract:
		tup := st.get(x.Tuple)
		tt := x.Tuple.Type().(*types.Tuple)
		lo, hi := tupleRange(tt, x.Index)
		v := Value{Typ: x.Type(), L: tup.L[lo:hi]}
		st.regs[x] = v
	case *ssa.MakeClosure:
		fn := x.Fn.(*ssa.Function)
		clo := &Closure{Fn: fn}
		for _, bnd := range x.Bindings {
			clo.Bindings = append(clo.Bindings, st.get(bnd))
		}
		st.regs[x] = Value{Typ: x.Type(), L: []Term{enc.declare("fn_"+sanitize(fn.String()), SInt)}, Clo: clo}
	case *ssa.MakeSlice:
		ln := st.get(x.Len).L[0]
		cp := st.get(x.Cap).L[0]
		if fv.fc.NoPanic {
			fv.addOb(st, "panic", fmt.Sprintf("makeslice[%s]", fv.srcText(x)), And(Ge(ln, I(0)), Le(ln, cp)), "make: len out of range", x.Pos())
		}
		st.assume(And(Ge(ln, I(0)), Le(ln, cp)))
		ref := st.alloc()
		et := x.Type().Underlying().(*types.Slice).Elem()
		fv.zeroElems(st, ref, et)
		st.regs[x] = Value{Typ: x.Type(), L: []Term{ref, I(0), ln, cp}}
	case *ssa.MakeMap:
		ref := st.alloc()
		st.regs[x] = Value{Typ: x.Type(), L: []Term{ref}}
	case *ssa.MakeChan:
		ref := st.alloc()
		st.regs[x] = Value{Typ: x.Type(), L: []Term{ref}}
	case *ssa.Lookup:
		st.regs[x] = fv.lookup(st, x)
	case *ssa.MapUpdate:
		fv.mapUpdate(st, x)
	case *ssa.Range:
		if isString(x.X.Type()) {
			st.regs[x] = st.get(x.X)
			st.rangePos[x] = I(0)
		} else {
			st.regs[x] = st.get(x.X)
		}
	case *ssa.Next:
		st.regs[x] = fv.nextOp(st, x)
	case *ssa.Call:
		res, ok := fv.call(st, x, x.Common(), x.Pos())
		if !ok {
			return nil, true
		}
		st.regs[x] = res
	case *ssa.Defer:
		d := deferred{call: x}
		cc := x.Common()
		if !cc.IsInvoke() {
			d.fn = st.get(cc.Value)
		} else {
			d.fn = st.get(cc.Value)
		}
		for _, a := range cc.Args {
			d.args = append(d.args, st.get(a))
		}
		st.defers = append(st.defers, d)
	case *ssa.RunDefers:
		for i := len(st.defers) - 1; i >= 0; i-- {
			d := st.defers[i]
			if !fv.runDeferred(st, d) {
				return nil, true
			}
		}
		st.defers = nil
	case *ssa.Go:
		st.havocAllKeepLocks()
		enc.havocAllCalls["go statement"] = true
	case *ssa.Send:
		st.havocAllKeepLocks()
		enc.havocAllCalls["channel send"] = true
	case *ssa.Select:
		st.havocAllKeepLocks()
		enc.havocAllCalls["select"] = true
		st.regs[x] = st.freshValue("select", x.Type())
	case *ssa.Jump:
		return b.Succs[0], false
	case *ssa.If:
		c := st.get(x.Cond).L[0]
		if c.S == "true" {
			return b.Succs[0], false
		}
		if c.S == "false" {
			return b.Succs[1], false
		}
		fv.paths++
		if fv.paths > fv.maxPaths {
			panic(unsupported(fmt.Sprintf("path explosion (> %d paths)", fv.maxPaths)))
		}
		if edgeCover && fv.mergeMode && inlineDepth == 0 {
			// development aid (GOVC_EDGE_COVER=1): is each side of this branch reachable? An
			// unreachable side is either defensive code or a contradiction in the assumptions
			for k, g := range []Term{c, Not(c)} {
				ob := fv.addOb(st, "edge", fmt.Sprintf("edge:b%d:%s", b.Index, []string{"then", "else"}[k]), g, "branch reachable", x.Pos())
				ob.Cover = true
				ob.Info = true
			}
		}
		// fork: else branch in a clone
		st2 := st.clone()
		st2.assume(Not(c))
		st2.trace = append(st2.trace, fmt.Sprintf("b%d:else", b.Index))
		if fv.mergeMode {
			fv.fork = &forkOut{st: st2, blk: b.Succs[1]}
			st.assume(c)
			st.trace = append(st.trace, fmt.Sprintf("b%d:then", b.Index))
			return b.Succs[0], false
		}
		if fv.takeEdge(st2, b, b.Succs[1]) {
			st2.prev = b
			fv.runBlock(st2, b.Succs[1])
		}
		st.assume(c)
		st.trace = append(st.trace, fmt.Sprintf("b%d:then", b.Index))
		return b.Succs[0], false
	case *ssa.Return:
		fv.doReturn(st, x)
		return nil, true
	case *ssa.Panic:
		fv.panicPaths++
		if fv.fc.NoPanic {
			msg := panicMsg(x)
			fv.addOb(st, "panic", fmt.Sprintf("panic[%s]", msg), FalseT, "explicit panic reachable", x.Pos())
		}
		return nil, true
	default:
		panic(unsupported(fmt.Sprintf("instruction %T", ins)))
	}
	return nil, false
}

func panicMsg(p *ssa.Panic) string {
	// try to find a constant string prefix
	v := p.X
	if mi, ok := v.(*ssa.MakeInterface); ok {
		v = mi.X
	}
	if c, ok := v.(*ssa.Const); ok && c.Value != nil {
		s := c.Value.ExactString()
		if len(s) > 30 {
			s = s[:30]
		}
		return s
	}
	if call, ok := v.(*ssa.Call); ok {
		for _, a := range call.Call.Args {
			if c, ok := a.(*ssa.Const); ok && c.Value != nil {
				s := c.Value.ExactString()
				if len(s) > 34 {
					s = s[:34]
				}
				return s
			}
		}
	}
	return "?"
}

func (fv *FuncVerifier) srcText(v ssa.Value) string {
	// short stable description of an index/slice expression: use names of operands
	switch x := v.(type) {
	case *ssa.IndexAddr:
		return fv.valName(x.X) + "[" + fv.valName(x.Index) + "]"
	case *ssa.Index:
		return fv.valName(x.X) + "[" + fv.valName(x.Index) + "]"
	case *ssa.Slice:
		lo, hi := "", ""
		if x.Low != nil {
			lo = fv.valName(x.Low)
		}
		if x.High != nil {
			hi = fv.valName(x.High)
		}
		return fv.valName(x.X) + "[" + lo + ":" + hi + "]"
	case *ssa.MakeSlice:
		return "make"
	}
	return v.Name()
}

// valName gives a source-like name for an SSA value (used only for obligation names).
func (fv *FuncVerifier) valName(v ssa.Value) string {
	switch x := v.(type) {
	case *ssa.Const:
		if x.Value == nil {
			return "nil"
		}
		return x.Value.ExactString()
	case *ssa.Parameter:
		return x.Name()
	case *ssa.Alloc:
		if x.Comment != "" {
			return x.Comment
		}
		return "tmp"
	case *ssa.FreeVar:
		return x.Name()
	case *ssa.Global:
		return x.Name()
	case *ssa.UnOp:
		if x.Op == token.MUL {
			return fv.valName(x.X)
		}
		return x.Op.String() + fv.valName(x.X)
	case *ssa.FieldAddr:
		stt := x.X.Type().Underlying().(*types.Pointer).Elem().Underlying().(*types.Struct)
		return fv.valName(x.X) + "." + stt.Field(x.Field).Name()
	case *ssa.Field:
		stt := x.X.Type().Underlying().(*types.Struct)
		return fv.valName(x.X) + "." + stt.Field(x.Field).Name()
	case *ssa.IndexAddr:
		return fv.valName(x.X) + "[" + fv.valName(x.Index) + "]"
	case *ssa.BinOp:
		return fv.valName(x.X) + x.Op.String() + fv.valName(x.Y)
	case *ssa.Call:
		if c := x.Call.StaticCallee(); c != nil {
			return c.Name() + "()"
		}
		if b, ok := x.Call.Value.(*ssa.Builtin); ok {
			var as []string
			for _, a := range x.Call.Args {
				as = append(as, fv.valName(a))
			}
			return b.Name() + "(" + strings.Join(as, ",") + ")"
		}
		return "call()"
	case *ssa.Convert:
		return fv.valName(x.X)
	case *ssa.ChangeType:
		return fv.valName(x.X)
	case *ssa.Extract:
		return fv.valName(x.Tuple) + fmt.Sprintf("#%d", x.Index)
	case *ssa.Slice:
		return fv.srcText(x)
	}
	return "_"
}

// derefPlace turns a pointer value into a place, emitting nil-check obligations.
func (fv *FuncVerifier) derefPlace(st *State, ptr Value, pos token.Pos, v ssa.Value) *Place {
	if ptr.Place != nil {
		return ptr.Place
	}
	ref := ptr.L[0]
	nn := Not(Eq(ref, I(0)))
	if fv.fc.NoPanic && !isLiteral(ref) {
		fv.addOb(st, "nil", fmt.Sprintf("nil[%s]", fv.valName(v)), nn, "nil pointer dereference", pos)
	}
	st.assume(nn)
	return st.placeOfPtr(ptr)
}

func (fv *FuncVerifier) zeroElems(st *State, ref Term, et types.Type) {
	for _, l := range flatten(et) {
		name := "E_" + typeKey(et) + l.Suffix
		a := st.heapArr(name, arrSort(arrSort(l.Sort)))
		z := "0"
		if l.Sort == SBool {
			z = "false"
		}
		if strings.HasPrefix(l.Sort, "(Array") {
			panic(unsupported("slice of arrays"))
		}
		zc := Term{fmt.Sprintf("((as const %s) %s)", arrSort(l.Sort), z), arrSort(l.Sort)}
		st.setHeap(name, Store(a, ref, zc))
	}
}

func (fv *FuncVerifier) zeroArray(st *State, ref Term, at *types.Array) {
	fv.zeroElems(st, ref, at.Elem())
}

func (fv *FuncVerifier) unop(st *State, x *ssa.UnOp) Value {
	switch x.Op {
	case token.MUL:
		ptr := st.get(x.X)
		p := fv.derefPlace(st, ptr, x.Pos(), x.X)
		if _, isArr := p.Typ.Underlying().(*types.Array); isArr && p.Kind != PLocal {
			panic(unsupported("load of whole array value"))
		}
		g := fv.checkGuard(st, st.resolve(p), false, x.Pos())
		v := st.load(p)
		if g != nil {
			v.Guard = g
		}
		return v
	case token.NOT:
		v := st.get(x.X)
		return Value{Typ: x.Type(), L: []Term{Not(v.L[0])}}
	case token.SUB:
		v := st.get(x.X)
		if isFloat(x.Type()) {
			fv.enc.declareFun("fneg", []string{"Int"}, "Int")
			return Value{Typ: x.Type(), L: []Term{app(SInt, "fneg", v.L[0])}}
		}
		r := app(SInt, "-", v.L[0])
		return Value{Typ: x.Type(), L: []Term{fv.wrap(st, r, x.Type())}}
	case token.XOR:
		// bitwise complement: -x-1 for signed; 2^w-1-x for unsigned
		v := st.get(x.X)
		bits, signed, _ := intBits(x.Type())
		if signed {
			return Value{Typ: x.Type(), L: []Term{Sub(app(SInt, "-", v.L[0]), I(1))}}
		}
		return Value{Typ: x.Type(), L: []Term{Sub(Sub(IStr(pow2(bits)), I(1)), v.L[0])}}
	case token.ARROW:
		st.havocAllKeepLocks()
		fv.enc.havocAllCalls["channel receive"] = true
		return st.freshValue("recv", x.Type())
	}
	panic(unsupported("unop " + x.Op.String()))
}

func isFloat(t types.Type) bool {
	b, ok := t.Underlying().(*types.Basic)
	return ok && b.Info()&types.IsFloat != 0
}

// wrap reduces a mathematical result into the range of integer type t.
// int/int64 are assumed not to overflow (mathematical), unless NoOverflow is requested.
func (fv *FuncVerifier) wrap(st *State, r Term, t types.Type) Term {
	bits, signed, ok := intBits(t)
	if !ok {
		return r
	}
	if bits == 64 && signed {
		return r
	}
	return wrapTerm(r, bits, signed)
}

func (fv *FuncVerifier) binop(st *State, op token.Token, a, b Value, rt types.Type, pos token.Pos) Value {
	enc := fv.enc
	xt := a.Typ
	res := func(t Term) Value { return Value{Typ: rt, L: []Term{t}} }
	// comparison of multi-leaf values
	switch op {
	case token.EQL, token.NEQ:
		var eq Term
		if isString(xt) {
			eq = fv.stringEq(st, a, b)
		} else if isFloat(xt) {
			eq = Eq(a.L[0], b.L[0])
		} else {
			if len(a.L) != len(b.L) {
				panic(fmt.Sprintf("binop ==: leaf mismatch %v %v", a.Typ, b.Typ))
			}
			var cs []Term
			// slices/maps/funcs compare only against nil: compare arr/ref leaf
			_, isIface := xt.Underlying().(*types.Interface)
			if _, isSl := xt.Underlying().(*types.Slice); isSl {
				cs = append(cs, Eq(a.L[0], b.L[0]))
			} else if isIface && ((a.L[0].S == "0" && a.L[1].S == "0") || (b.L[0].S == "0" && b.L[1].S == "0")) {
				// comparison with the nil interface: nil iff the dynamic type is nil
				cs = append(cs, Eq(a.L[0], b.L[0]))
			} else {
				for i := range a.L {
					cs = append(cs, Eq(a.L[i], b.L[i]))
				}
			}
			eq = And(cs...)
		}
		if op == token.NEQ {
			return res(Not(eq))
		}
		return res(eq)
	}
	if isString(xt) {
		switch op {
		case token.ADD:
			id := enc.fresh("strcat", SInt)
			ln := Add(a.L[2], b.L[2])
			enc.declareFun("sbyte", []string{"Int", "Int"}, "Int")
			k := "k!q"
			st.assume(Forall([]string{k}, Implies(And(Le(I(0), Term{k, SInt}), Lt(Term{k, SInt}, ln)),
				Eq(app(SInt, "sbyte", id, Term{k, SInt}),
					Ite(Lt(Term{k, SInt}, a.L[2]), enc.strAt(a.L[0], a.L[1], Term{k, SInt}),
						enc.strAt(b.L[0], b.L[1], Sub(Term{k, SInt}, a.L[2])))))))
			return Value{Typ: rt, L: []Term{id, I(0), ln}}
		case token.LSS, token.LEQ, token.GTR, token.GEQ:
			return res(enc.fresh("strcmp", SBool))
		}
	}
	if isFloat(xt) {
		name := map[token.Token]string{token.ADD: "fadd", token.SUB: "fsub", token.MUL: "fmul", token.QUO: "fdiv", token.LSS: "flt", token.LEQ: "fle", token.GTR: "fgt", token.GEQ: "fge"}[op]
		if name == "" {
			panic(unsupported("float op " + op.String()))
		}
		switch op {
		case token.LSS, token.LEQ, token.GTR, token.GEQ:
			enc.declareFun(name, []string{"Int", "Int"}, "Bool")
			return res(app(SBool, name, a.L[0], b.L[0]))
		}
		enc.declareFun(name, []string{"Int", "Int"}, "Int")
		return res(app(SInt, name, a.L[0], b.L[0]))
	}
	x, y := a.L[0], b.L[0]
	switch op {
	case token.LSS:
		return res(Lt(x, y))
	case token.LEQ:
		return res(Le(x, y))
	case token.GTR:
		return res(Gt(x, y))
	case token.GEQ:
		return res(Ge(x, y))
	case token.ADD:
		return res(fv.arith(st, Add(x, y), rt, "+", pos))
	case token.SUB:
		return res(fv.arith(st, Sub(x, y), rt, "-", pos))
	case token.MUL:
		return res(fv.arith(st, Mul(x, y), rt, "*", pos))
	case token.QUO, token.REM:
		nz := Not(Eq(y, I(0)))
		if fv.fc.NoPanic && !isLiteral(y) {
			fv.addOb(st, "div", "div[by zero]", nz, "division by zero", pos)
		}
		st.assume(nz)
		_, signed, _ := intBits(rt)
		if op == token.QUO {
			if !signed {
				return res(app(SInt, "div", x, y))
			}
			return res(fv.wrap(st, GoDiv(x, y), rt))
		}
		if !signed {
			return res(app(SInt, "mod", x, y))
		}
		return res(GoMod(x, y))
	case token.AND, token.OR, token.XOR, token.SHL, token.SHR, token.AND_NOT:
		return res(fv.bitop(st, op, x, y, a.Typ, b.Typ, rt))
	case token.LAND:
		return res(And(x, y))
	case token.LOR:
		return res(Or(x, y))
	}
	panic(unsupported("binop " + op.String()))
}

func (fv *FuncVerifier) arith(st *State, r Term, t types.Type, op string, pos token.Pos) Term {
	bits, signed, ok := intBits(t)
	if !ok {
		return r
	}
	if bits == 64 && signed {
		if fv.fc.NoOverflow {
			lo, hi, _ := intRange(t)
			fv.addOb(st, "overflow", fmt.Sprintf("overflow[%s]", op), And(Le(IStr(lo), r), Le(r, IStr(hi))), "int overflow", pos)
		}
		return r
	}
	return fv.wrap(st, r, t)
}

func constInt(t Term) (int64, bool) {
	if !isLiteral(t) || strings.HasPrefix(t.S, "(") {
		return 0, false
	}
	var n int64
	for _, c := range t.S {
		if c < '0' || c > '9' {
			return 0, false
		}
		if n > (1<<62)/10 {
			return 0, false
		}
		n = n*10 + int64(c-'0')
	}
	return n, true
}

// bitop models bit operations in Int mode: exact for shifts by constants and masks with 2^k-1 on
// non-negative values; otherwise an unconstrained in-range value (sound over-approximation).
func (fv *FuncVerifier) bitop(st *State, op token.Token, x, y Term, xt, yt, rt types.Type) Term {
	bits, signed, _ := intBits(rt)
	ky, yconst := constInt(y)
	switch op {
	case token.SHL:
		if yconst && ky < 63 {
			res := fv.wrap2(Mul(x, IStr(pow2(int(ky)))), rt)
			if isLiteral(res) {
				return res
			}
			// name the result and record that its low ky bits are zero (2^bits is a multiple of
			// 2^ky, so wrapping preserves divisibility)
			n := fv.enc.fresh("shl", SInt)
			st.assume(Eq(n, res))
			if int(ky) < bits {
				st.assume(Eq(app(SInt, "mod", n, IStr(pow2(int(ky)))), I(0)))
			}
			return n
		}
	case token.SHR:
		if yconst && ky < 63 {
			// arithmetic shift = floor division (SMT div is floor for positive divisor)
			return app(SInt, "div", x, IStr(pow2(int(ky))))
		}
	case token.AND:
		if yconst {
			// mask 2^k - 1
			for k := 1; k < 63; k++ {
				if ky == (int64(1)<<k)-1 {
					return app(SInt, "mod", x, IStr(pow2(k)))
				}
			}
			if ky == 0 {
				return I(0)
			}
			// single bit 2^k: ((x div 2^k) mod 2) * 2^k  (x non-negative: unsigned or a flag word)
			for k := 0; k < 62; k++ {
				if ky == int64(1)<<k {
					if _, signed, _ := intBits(xt); !signed {
						return Mul(app(SInt, "mod", app(SInt, "div", x, IStr(pow2(k))), I(2)), IStr(pow2(k)))
					}
				}
			}
		}
	case token.OR:
		if yconst && ky == 0 {
			return x
		}
	}
	_ = bits
	_ = signed
	r := fv.enc.fresh("bitop", SInt)
	if lo, hi, ok := intRange(rt); ok {
		st.assume(And(Le(IStr(lo), r), Le(r, IStr(hi))))
	}
	// a few useful facts
	switch op {
	case token.AND:
		st.assume(Implies(And(Ge(x, I(0)), Ge(y, I(0))), And(Ge(r, I(0)), Le(r, x), Le(r, y))))
	case token.OR:
		st.assume(Implies(And(Ge(x, I(0)), Ge(y, I(0))), And(Ge(r, x), Ge(r, y), Le(r, Add(x, y)))))
		// disjoint bit ranges: x a multiple of 2^k and 0 <= y < 2^k (or the other way round)
		// give x|y == x+y (also for negative x in two's complement)
		for _, k := range []int{1, 2, 3, 4, 5, 6, 7, 8, 12, 16, 24, 32} {
			p := IStr(pow2(k))
			st.assume(Implies(And(Eq(app(SInt, "mod", x, p), I(0)), Le(I(0), y), Lt(y, p)), Eq(r, Add(x, y))))
			st.assume(Implies(And(Eq(app(SInt, "mod", y, p), I(0)), Le(I(0), x), Lt(x, p)), Eq(r, Add(x, y))))
		}
	}
	return r
}

func (fv *FuncVerifier) wrap2(r Term, t types.Type) Term {
	bits, signed, ok := intBits(t)
	if !ok {
		return r
	}
	return wrapTerm(r, bits, signed)
}

// wrapTerm: two's-complement wrap of a mathematical integer into bits/signedness, written as
// ite(in range, r, wrapped) so that the common no-overflow case needs no modular reasoning.
func wrapTerm(r Term, bits int, signed bool) Term {
	m := IStr(pow2(bits))
	if !signed {
		return Ite(And(Le(I(0), r), Lt(r, m)), r, app(SInt, "mod", r, m))
	}
	half := IStr(pow2(bits - 1))
	return Ite(And(Le(app(SInt, "-", half), r), Lt(r, half)), r, Sub(app(SInt, "mod", Add(r, half), m), half))
}

func (fv *FuncVerifier) stringEq(st *State, a, b Value) Term {
	// constant empty string
	if a.L[2].S == "0" {
		return Eq(b.L[2], I(0))
	}
	if b.L[2].S == "0" {
		return Eq(a.L[2], I(0))
	}
	fv.enc.declareFun("streq", []string{"Int", "Int", "Int", "Int", "Int", "Int"}, "Bool")
	fv.enc.declareFun("sbyte", []string{"Int", "Int"}, "Int")
	t := app(SBool, "streq", a.L[0], a.L[1], a.L[2], b.L[0], b.L[1], b.L[2])
	// streq definition (as axiom): equal length and bytes
	fv.enc.addAxiom("(forall ((i1 Int) (o1 Int) (n1 Int) (i2 Int) (o2 Int) (n2 Int)) (! (= (streq i1 o1 n1 i2 o2 n2) (and (= n1 n2) (forall ((k Int)) (=> (and (<= 0 k) (< k n1)) (= (sbyte i1 (+ o1 k)) (sbyte i2 (+ o2 k))))))) :pattern ((streq i1 o1 n1 i2 o2 n2))))")
	return t
}

func (fv *FuncVerifier) indexAddr(st *State, x *ssa.IndexAddr) Value {
	base := st.get(x.X)
	idx := st.get(x.Index).L[0]
	switch u := x.X.Type().Underlying().(type) {
	case *types.Slice:
		inb := And(Le(I(0), idx), Lt(idx, base.L[2]))
		if fv.fc.NoPanic {
			fv.addOb(st, "bounds", fmt.Sprintf("bounds[%s]", fv.srcText(x)), inb, "index out of range", x.Pos())
		}
		st.assume(inb)
		fv.enc.registerRefLeaves("E_"+typeKey(u.Elem()), u.Elem(), 2)
		return Value{Typ: x.Type(), L: []Term{I(0)}, Place: &Place{Kind: PElem, Typ: u.Elem(), Prefix: "E_" + typeKey(u.Elem()), Arr: base.L[0], Off: base.L[1], Idx: idx}}
	case *types.Pointer:
		at := u.Elem().Underlying().(*types.Array)
		inb := And(Le(I(0), idx), Lt(idx, I(at.Len())))
		if fv.fc.NoPanic && !isLiteral(idx) {
			fv.addOb(st, "bounds", fmt.Sprintf("bounds[%s]", fv.srcText(x)), inb, "index out of range", x.Pos())
		}
		st.assume(inb)
		if base.Place != nil {
			panic(unsupported("index of local array cell"))
		}
		ref := base.L[0]
		fv.enc.registerRefLeaves("E_"+typeKey(at.Elem()), at.Elem(), 2)
		return Value{Typ: x.Type(), L: []Term{I(0)}, Place: &Place{Kind: PElem, Typ: at.Elem(), Prefix: "E_" + typeKey(at.Elem()), Arr: ref, Off: I(0), Idx: idx}}
	}
	panic(unsupported("IndexAddr on " + x.X.Type().String()))
}

func (fv *FuncVerifier) index(st *State, x *ssa.Index) Value {
	base := st.get(x.X)
	idx := st.get(x.Index).L[0]
	if isString(x.X.Type()) {
		inb := And(Le(I(0), idx), Lt(idx, base.L[2]))
		if fv.fc.NoPanic {
			fv.addOb(st, "bounds", fmt.Sprintf("bounds[%s]", fv.srcText(x)), inb, "string index out of range", x.Pos())
		}
		st.assume(inb)
		fv.enc.declareFun("sbyte", []string{"Int", "Int"}, "Int")
		t := fv.enc.strAt(base.L[0], base.L[1], idx)
		st.assume(And(Le(I(0), t), Le(t, I(255))))
		return Value{Typ: x.Type(), L: []Term{t}}
	}
	panic(unsupported("Index on " + x.X.Type().String()))
}

func (fv *FuncVerifier) sliceOp(st *State, x *ssa.Slice) Value {
	base := st.get(x.X)
	var lo, hi Term
	lo = I(0)
	if x.Low != nil {
		lo = st.get(x.Low).L[0]
	}
	switch u := x.X.Type().Underlying().(type) {
	case *types.Slice:
		if x.High != nil {
			hi = st.get(x.High).L[0]
		} else {
			hi = base.L[2]
		}
		capT := base.L[3]
		var mx Term
		if x.Max != nil {
			mx = st.get(x.Max).L[0]
		} else {
			mx = capT
		}
		inb := And(Le(I(0), lo), Le(lo, hi), Le(hi, mx), Le(mx, capT))
		if fv.fc.NoPanic {
			fv.addOb(st, "slice", fmt.Sprintf("slice[%s]", fv.srcText(x)), inb, "slice bounds out of range", x.Pos())
		}
		st.assume(inb)
		return Value{Typ: x.Type(), L: []Term{base.L[0], Add(base.L[1], lo), Sub(hi, lo), Sub(mx, lo)}}
	case *types.Basic: // string
		if x.High != nil {
			hi = st.get(x.High).L[0]
		} else {
			hi = base.L[2]
		}
		inb := And(Le(I(0), lo), Le(lo, hi), Le(hi, base.L[2]))
		if fv.fc.NoPanic {
			fv.addOb(st, "slice", fmt.Sprintf("slice[%s]", fv.srcText(x)), inb, "slice bounds out of range", x.Pos())
		}
		st.assume(inb)
		return Value{Typ: x.Type(), L: []Term{base.L[0], Add(base.L[1], lo), Sub(hi, lo)}}
	case *types.Pointer:
		at := u.Elem().Underlying().(*types.Array)
		n := I(at.Len())
		if x.High != nil {
			hi = st.get(x.High).L[0]
		} else {
			hi = n
		}
		mx := n
		if x.Max != nil {
			mx = st.get(x.Max).L[0]
		}
		inb := And(Le(I(0), lo), Le(lo, hi), Le(hi, mx), Le(mx, n))
		if fv.fc.NoPanic && !(isLiteral(lo) && isLiteral(hi)) {
			fv.addOb(st, "slice", fmt.Sprintf("slice[%s]", fv.srcText(x)), inb, "slice bounds out of range", x.Pos())
		}
		st.assume(inb)
		if base.Place != nil {
			panic(unsupported("slice of local array cell"))
		}
		return Value{Typ: x.Type(), L: []Term{base.L[0], lo, Sub(hi, lo), Sub(mx, lo)}}
	}
	panic(unsupported("Slice on " + x.X.Type().String()))
}

func (fv *FuncVerifier) convert(st *State, v Value, from, to types.Type) Value {
	enc := fv.enc
	fb, fok := from.Underlying().(*types.Basic)
	tb, tok := to.Underlying().(*types.Basic)
	if fok && tok {
		fi, ti := fb.Info(), tb.Info()
		switch {
		case fi&types.IsInteger != 0 && ti&types.IsInteger != 0:
			fbits, fsigned, _ := intBits(from)
			tbits, tsigned, _ := intBits(to)
			x := v.L[0]
			// value-preserving?
			if (fsigned == tsigned && tbits >= fbits) || (!fsigned && tsigned && tbits > fbits) {
				return Value{Typ: to, L: []Term{x}}
			}
			return Value{Typ: to, L: []Term{fv.wrap2(x, to)}}
		case fi&types.IsInteger != 0 && ti&types.IsString != 0:
			// string(rune): fresh string of length 1..4 (3 for invalid -> U+FFFD)
			id := enc.fresh("runestr", SInt)
			ln := enc.fresh("runestrlen", SInt)
			x := v.L[0]
			enc.declareFun("sbyte", []string{"Int", "Int"}, "Int")
			st.assume(And(Le(I(1), ln), Le(ln, I(4))))
			st.assume(Implies(And(Le(I(0), x), Lt(x, I(128))), And(Eq(ln, I(1)), Eq(app(SInt, "sbyte", id, I(0)), x))))
			st.assume(Implies(And(Le(I(128), x), Lt(x, I(2048))), Eq(ln, I(2))))
			st.assume(Implies(Or(Lt(x, I(0)), Gt(x, I(0x10ffff)), And(Le(I(0xd800), x), Le(x, I(0xdfff)))), Eq(ln, I(3))))
			st.assume(Implies(And(Le(I(2048), x), Lt(x, I(65536))), Eq(ln, I(3))))
			st.assume(Implies(And(Le(I(65536), x), Le(x, I(0x10ffff))), Eq(ln, I(4))))
			return Value{Typ: to, L: []Term{id, I(0), ln}}
		case fi&types.IsString != 0 && ti&types.IsString != 0:
			v.Typ = to
			return v
		case fi&types.IsFloat != 0 && ti&types.IsFloat != 0:
			v.Typ = to
			return v
		case fi&types.IsInteger != 0 && ti&types.IsFloat != 0:
			enc.declareFun("i2f", []string{"Int"}, "Int")
			return Value{Typ: to, L: []Term{app(SInt, "i2f", v.L[0])}}
		case fi&types.IsFloat != 0 && ti&types.IsInteger != 0:
			r := st.freshValue("f2i", to)
			return r
		case tb.Kind() == types.UnsafePointer || fb.Kind() == types.UnsafePointer:
			panic(unsupported("unsafe.Pointer conversion"))
		}
	}
	// []byte <-> string, []rune -> string
	if fsl, ok := from.Underlying().(*types.Slice); ok && tok && tb.Info()&types.IsString != 0 {
		id := enc.fresh("str", SInt)
		enc.declareFun("sbyte", []string{"Int", "Int"}, "Int")
		if eb, ok := fsl.Elem().Underlying().(*types.Basic); ok && eb.Kind() == types.Uint8 {
			ea := st.heapArr("E_"+typeKey(fsl.Elem()), arrSort(SArr))
			k := Term{"k!q", SInt}
			st.assume(Forall([]string{"k!q"}, Implies(And(Le(I(0), k), Lt(k, v.L[2])), Eq(app(SInt, "sbyte", id, k), enc.elemAt(Select(ea, v.L[0]), v.L[1], k)))))
			return Value{Typ: to, L: []Term{id, I(0), v.L[2]}}
		}
		// []rune -> string: length between len and 4*len
		ln := enc.fresh("strlen", SInt)
		st.assume(And(Le(v.L[2], ln), Le(ln, Mul(I(4), v.L[2]))))
		// all-ASCII runes give exactly one byte each, equal to the rune
		ea := st.heapArr("E_"+typeKey(fsl.Elem()), arrSort(SArr))
		k := Term{"k!q", SInt}
		allAscii := Forall([]string{"k!q"}, Implies(And(Le(I(0), k), Lt(k, v.L[2])), And(Le(I(0), enc.elemAt(Select(ea, v.L[0]), v.L[1], k)), Lt(enc.elemAt(Select(ea, v.L[0]), v.L[1], k), I(128)))))
		st.assume(Implies(allAscii, And(Eq(ln, v.L[2]), Forall([]string{"k!q"}, Implies(And(Le(I(0), k), Lt(k, v.L[2])), Eq(app(SInt, "sbyte", id, k), enc.elemAt(Select(ea, v.L[0]), v.L[1], k)))))))
		return Value{Typ: to, L: []Term{id, I(0), ln}}
	}
	if tsl, ok := to.Underlying().(*types.Slice); ok && fok && fb.Info()&types.IsString != 0 {
		if eb, ok := tsl.Elem().Underlying().(*types.Basic); ok && eb.Kind() == types.Uint8 {
			ref := st.alloc()
			name := "E_" + typeKey(tsl.Elem())
			ea := st.heapArr(name, arrSort(SArr))
			na := enc.fresh("bytes", SArr)
			enc.declareFun("sbyte", []string{"Int", "Int"}, "Int")
			k := Term{"k!q", SInt}
			st.assume(Forall([]string{"k!q"}, Implies(And(Le(I(0), k), Lt(k, v.L[2])), Eq(Select(na, k), enc.strAt(v.L[0], v.L[1], k)))))
			st.setHeap(name, Store(ea, ref, na))
			cp := enc.fresh("cap", SInt)
			st.assume(Ge(cp, v.L[2]))
			return Value{Typ: to, L: []Term{ref, I(0), v.L[2], cp}}
		}
		panic(unsupported("string -> []rune"))
	}
	// pointer conversions between named pointer types etc.
	if len(flatten(from)) == len(flatten(to)) {
		v.Typ = to
		return v
	}
	panic(unsupported(fmt.Sprintf("convert %v -> %v", from, to)))
}

func (fv *FuncVerifier) makeInterface(st *State, v Value, from, to types.Type) Value {
	tid := fv.enc.typeID(from)
	if v.Place != nil && v.Place.Kind == PLocal {
		v = st.promote(v)
	}
	if len(v.L) == 1 && v.L[0].Sort == SInt {
		return Value{Typ: to, L: []Term{tid, v.L[0]}}
	}
	if len(v.L) == 0 {
		return Value{Typ: to, L: []Term{tid, I(0)}}
	}
	// box
	box := fv.enc.fresh("box", SInt)
	key := typeKey(from)
	for i, l := range v.L {
		fn := fmt.Sprintf("unbox_%s_%d", key, i)
		fv.enc.declareFun(fn, []string{"Int"}, l.Sort)
		st.assume(Eq(app(l.Sort, fn, box), l))
	}
	return Value{Typ: to, L: []Term{tid, box}}
}

func (fv *FuncVerifier) unbox(st *State, val Term, t types.Type) Value {
	ls := flatten(t)
	if len(ls) == 1 && ls[0].Sort == SInt {
		v := Value{Typ: t, L: []Term{val}}
		return v
	}
	v := Value{Typ: t}
	key := typeKey(t)
	for i, l := range ls {
		fn := fmt.Sprintf("unbox_%s_%d", key, i)
		fv.enc.declareFun(fn, []string{"Int"}, l.Sort)
		v.L = append(v.L, app(l.Sort, fn, val))
	}
	st.assumeWellTyped(v)
	return v
}

func (fv *FuncVerifier) typeAssert(st *State, x *ssa.TypeAssert) Value {
	iv := st.get(x.X)
	typ, val := iv.L[0], iv.L[1]
	var ok Term
	var res Value
	if _, isIface := x.AssertedType.Underlying().(*types.Interface); isIface {
		fn := fv.enc.implPred(x.AssertedType)
		ok = And(Not(Eq(typ, I(0))), app(SBool, fn, typ))
		res = Value{Typ: x.AssertedType, L: []Term{typ, val}}
	} else {
		ok = Eq(typ, fv.enc.typeID(x.AssertedType))
		res = fv.unbox(st, val, x.AssertedType)
		switch x.AssertedType.Underlying().(type) {
		case *types.Pointer, *types.Map, *types.Chan:
			// a reference held in an interface designates an object that exists
			st.assume(Implies(ok, Lt(val, st.hwm)))
		}
	}
	if x.CommaOk {
		// result tuple (value, ok); value is zero when !ok
		z := fv.enc.zero(x.AssertedType)
		var ls []Term
		for i := range res.L {
			ls = append(ls, Ite(ok, res.L[i], z.L[i]))
		}
		ls = append(ls, ok)
		return Value{Typ: x.Type(), L: ls}
	}
	if fv.fc.NoPanic {
		fv.addOb(st, "panic", fmt.Sprintf("typeassert[%s]", fv.valName(x.X)), ok, "type assertion may fail", x.Pos())
	}
	st.assume(ok)
	return res
}

func (fv *FuncVerifier) lookup(st *State, x *ssa.Lookup) Value {
	if isString(x.X.Type()) {
		base := st.get(x.X)
		idx := st.get(x.Index).L[0]
		inb := And(Le(I(0), idx), Lt(idx, base.L[2]))
		if fv.fc.NoPanic {
			fv.addOb(st, "bounds", fmt.Sprintf("bounds[%s[%s]]", fv.valName(x.X), fv.valName(x.Index)), inb, "string index out of range", x.Pos())
		}
		st.assume(inb)
		fv.enc.declareFun("sbyte", []string{"Int", "Int"}, "Int")
		t := fv.enc.strAt(base.L[0], base.L[1], idx)
		st.assume(And(Le(I(0), t), Le(t, I(255))))
		return Value{Typ: x.Type(), L: []Term{t}}
	}
	// map lookup: opaque, except that a nil map has no entries
	fv.guardAccess(st, x.X, false, x.Pos())
	res := st.freshValue("maplookup", x.Type())
	st.assumeRefs(res)
	if x.CommaOk && len(res.L) > 0 {
		m := st.get(x.X)
		okT := res.L[len(res.L)-1]
		if okT.Sort == SBool {
			st.assume(Implies(Eq(m.L[0], I(0)), Not(okT)))
			// ok <=> the key is present in the map's current content
			if key, kok := fv.enc.mapKey(st.get(x.Index)); kok {
				ver := Select(st.heapArr("M_content", SArr), m.L[0])
				st.assume(Eq(okT, st.mhas(ver, key)))
			}
		}
	}
	// the value read: the integer-sorted words of the entry; the zero value when there is none
	if key, kok := fv.enc.mapKey(st.get(x.Index)); kok {
		m := st.get(x.X)
		if mt, isMap := m.Typ.Underlying().(*types.Map); isMap && m.Place == nil && len(m.L) == 1 {
			ver := Select(st.heapArr("M_content", SArr), m.L[0])
			for i, l := range flatten(mt.Elem()) {
				if l.Sort != SInt || i >= len(res.L) || res.L[i].Sort != SInt {
					continue
				}
				st.assume(Eq(res.L[i], st.mval(ver, key, i)))
				st.assume(Implies(Or(Eq(m.L[0], I(0)), Not(st.mhas(ver, key))), Eq(res.L[i], I(0))))
			}
		}
	}
	return res
}

func (fv *FuncVerifier) mapUpdate(st *State, x *ssa.MapUpdate) {
	fv.guardAccess(st, x.Map, true, x.Pos())
	m := st.get(x.Map)
	if fv.fc.NoPanic {
		fv.addOb(st, "nil", fmt.Sprintf("nilmap[%s]", fv.valName(x.Map)), Not(Eq(m.L[0], I(0))), "assignment to entry in nil map", x.Pos())
	}
	if key, kok := fv.enc.mapKey(st.get(x.Key)); kok {
		sv := st.get(x.Value)
		if sv.Place != nil && sv.Place.Kind == PLocal {
			sv = st.promote(sv)
		}
		fv.mapSetKey(st, x.Map, key, true, &sv)
	} else {
		fv.markMapDirty(st, x.Map)
	}
}

func (fv *FuncVerifier) nextOp(st *State, x *ssa.Next) Value {
	rng := x.Iter.(*ssa.Range)
	if x.IsString {
		s := st.get(rng)
		pos := st.rangePos[rng]
		ok := Lt(pos, s.L[2])
		// rune width rw in 1..4, bounded by remaining length
		enc := fv.enc
		enc.declareFun("sbyte", []string{"Int", "Int"}, "Int")
		enc.declareFun("rw", []string{"Int", "Int", "Int"}, "Int")     // rw(id, abspos, abslimit)
		enc.declareFun("runeat", []string{"Int", "Int", "Int"}, "Int") // decoded rune
		abspos := Add(s.L[1], pos)
		abslim := Add(s.L[1], s.L[2])
		w := app(SInt, "rw", s.L[0], abspos, abslim)
		r := app(SInt, "runeat", s.L[0], abspos, abslim)
		st.assume(Implies(ok, And(Le(I(1), w), Le(w, I(4)), Le(Add(pos, w), s.L[2]))))
		st.assume(Implies(ok, And(Le(I(0), r), Le(r, I(0x10ffff)), Or(Lt(r, I(0xD800)), Gt(r, I(0xDFFF))))))
		// ASCII fast path facts
		b0 := app(SInt, "sbyte", s.L[0], abspos)
		st.assume(Implies(And(ok, Lt(b0, I(128))), And(Eq(w, I(1)), Eq(r, b0))))
		st.assume(Implies(And(ok, Ge(b0, I(128))), Ge(r, I(128))))
		fv.utf8Axioms()
		newpos := Ite(ok, Add(pos, w), pos)
		np := enc.fresh("rangepos", SInt)
		st.assume(Eq(np, newpos))
		st.rangePos[rng] = np
		// tuple (ok bool, k int, v rune)
		return Value{Typ: x.Type(), L: []Term{ok, pos, r}}
	}
	// map iteration: nondeterministic
	okc := fv.enc.fresh("mapnext", SBool)
	tt := x.Type().(*types.Tuple)
	v := Value{Typ: x.Type(), L: []Term{okc}}
	for i := 1; i < tt.Len(); i++ {
		if b, ok := tt.At(i).Type().(*types.Basic); ok && b.Kind() == types.Invalid {
			continue
		}
		fvv := st.freshValue("mapiter", tt.At(i).Type())
		v.L = append(v.L, fvv.L...)
	}
	fv.guardAccess(st, rng.X, false, x.Pos())
	return v
}

// utf8RangeAxioms: what the runtime's UTF-8 decoder guarantees wherever it is applied (assumed;
// the same facts are assumed at every range-over-string step): inside the limit it consumes 1..4
// bytes without passing the limit and yields a Unicode scalar value (never a surrogate).
func (e *Enc) utf8RangeAxioms() {
	e.declareFun("rw", []string{"Int", "Int", "Int"}, "Int")
	e.declareFun("runeat", []string{"Int", "Int", "Int"}, "Int")
	e.addAxiom("(forall ((id Int) (p Int) (l Int)) (! (=> (< p l) (and (<= 1 (rw id p l)) (<= (rw id p l) 4) (<= (+ p (rw id p l)) l))) :pattern ((rw id p l))))")
	e.addAxiom("(forall ((id Int) (p Int) (l Int)) (! (=> (< p l) (and (<= 0 (runeat id p l)) (<= (runeat id p l) 1114111) (or (< (runeat id p l) 55296) (> (runeat id p l) 57343)))) :pattern ((runeat id p l))))")
	// rw(id,p,L1) with p+rw<=L2<=L1  ==> rw(id,p,L2)==rw(id,p,L1) and same rune
	e.addAxiom("(forall ((id Int) (p Int) (l1 Int) (l2 Int)) (! (=> (and (<= (+ p (rw id p l1)) l2) (<= l2 l1)) (and (= (rw id p l2) (rw id p l1)) (= (runeat id p l2) (runeat id p l1)))) :pattern ((rw id p l1) (rw id p l2)) :pattern ((runeat id p l1) (runeat id p l2)) :pattern ((rw id p l1) (runeat id p l2))))")
	e.assumedUsed["range over a string / rwl, runeatl: the runtime's UTF-8 decoder consumes 1..4 bytes inside the limit, yields a scalar value (no surrogates), and decodes the same character when the limit is moved without cutting it (prefix stability)"] = true
}

// utf8Axioms: properties of the uninterpreted decode width (prefix stability) used by C32.
func (fv *FuncVerifier) utf8Axioms() {
	fv.enc.utf8RangeAxioms()
}

func (fv *FuncVerifier) doReturn(st *State, r *ssa.Return) {
	if fv.inlineRets != nil {
		// inlined callee: hand the state and the results back to the call site
		var ls []Term
		for _, v := range r.Results {
			rv := st.get(v)
			if rv.Place != nil && rv.Place.Kind == PLocal {
				rv = st.promote(rv)
			}
			if rv.Clo != nil {
				panic(unsupported("inlined callee returns a closure"))
			}
			ls = append(ls, rv.L...)
		}
		st.inlineResult = Value{Typ: resultType(fv.fn.Signature), L: ls}
		*fv.inlineRets = append(*fv.inlineRets, st)
		return
	}
	fv.retStates++
	idx := fv.retOrd[r]
	var results []Value
	for _, v := range r.Results {
		results = append(results, st.get(v))
	}
	env := fv.postEnv(st, results)
	env.retIdx = idx
	basePC := st.pc
	for i, c := range fv.fc.Ensures {
		g := fv.evalBool(env, c.E)
		pob := fv.addOb(st, "post", fmt.Sprintf("post#%d@ret%d", i, idx), g, c.Src, r.Pos())
		pob.PC = append(pob.PC, revealAxioms(fv.enc, c.Reveal)...)
		pob.ClauseProps = c.Props
		if fv.fc.Staged {
			// proved just above at this very site: later postconditions may build on it
			st.pc = append(st.pc[:len(st.pc):len(st.pc)], g)
		}
	}
	st.pc = basePC
	if isPkgInit(fv.fn) {
		for k, gi := range ginvsFor(fv.db, fv.fn.Pkg.Pkg.Path()) {
			fv.addOb(st, "post", fmt.Sprintf("ginv#%d@ret%d", k, idx), fv.evalBool(env, gi.E), "package invariant established by the initialiser: "+gi.Src, r.Pos())
		}
	}
	fv.checkFrame(st, idx, r.Pos())
	fv.checkLocksAtExit(st, idx, r.Pos())
	// vacuity canary: this return is reachable under the precondition
	ob := fv.addOb(st, "cover", fmt.Sprintf("cover:ret%d", idx), TrueT, "return reachable", r.Pos())
	ob.Cover = true
}
