package main

import (
	"bufio"
	"fmt"
	"os"
	"regexp"
	"strconv"
	"strings"
)

type ParamDecl struct{ Name, Type string }

type Clause struct {
	E      SExpr
	Src    string
	Reveal []string // opaque predicates whose definitions this clause's proof may use
	Props  []string // "[C16] expr": the clause belongs to these properties only (default: the function's)
}

// splitClauseProps: "[C16 C17] expr" -> (["C16","C17"], "expr")
func splitClauseProps(text string) ([]string, string) {
	t := strings.TrimSpace(text)
	if !strings.HasPrefix(t, "[") {
		return nil, text
	}
	i := strings.Index(t, "]")
	if i < 0 {
		return nil, text
	}
	return strings.Fields(t[1:i]), strings.TrimSpace(t[i+1:])
}

// splitReveal: "reveal(P, Q) expr" -> (["P","Q"], "expr")
func splitReveal(text string) ([]string, string) {
	t := strings.TrimSpace(text)
	if !strings.HasPrefix(t, "reveal(") {
		return nil, text
	}
	i := strings.Index(t, ")")
	if i < 0 {
		return nil, text
	}
	var names []string
	for _, n := range strings.Split(t[len("reveal("):i], ",") {
		if n = strings.TrimSpace(n); n != "" {
			names = append(names, n)
		}
	}
	return names, strings.TrimSpace(t[i+1:])
}

type SpecFunc struct {
	Name   string
	Params []ParamDecl
	Ret    string
	Body   SExpr
	Src    string
	Pkg    string
	Uninterp bool // declared without body
}

type Pred struct {
	Opaque bool // an uninterpreted atom except in the proof of clauses that reveal it
	Name   string
	Params []ParamDecl
	Body   SExpr
	Src    string
	Pkg    string
}

type Lemma struct {
	Name     string
	Params   []ParamDecl
	Requires []Clause
	Ensures  []Clause
	IndVar   string
	From     SExpr
	Uses     []string
	Axiom    bool // assumed without proof (listed in trusted base)
	Triggers [][]SExpr
	Reveal   []string
	Props    []string
	Pkg      string
	Src      string
}

type LoopContract struct {
	Invariants []Clause
	Decreases  *Clause
	Unroll     int
}

type FuncContract struct {
	Name        string // fully qualified SSA name
	RelName     string
	Pkg         string
	Assumed     bool
	Iface       bool // contract of an interface method (justified by its verified implementations)
	Auto        bool // synthesised empty contract (guard sweep)
	Inline      bool
	NoPanic     bool
	NoLocks     bool // called (and entered) with no lock of the tracked mutexes held by this goroutine
	NoOverflow  bool
	DeadRets    map[int]bool // return sites declared unreachable under the precondition
	LoopFrames  bool // entry-relative loop frames (loopframe.go)
	StagedInv   bool // each loop invariant may use the ones listed before it (at entry and at every back edge)
	Staged      bool // each postcondition may use the ones listed before it (proved at the same return site)
	Writes      []Clause // with writesonly: the locations single stores may go to (default: the modifies clause)
	HasWrites   bool
	WritesOnly  bool // every store (not only the net effect at return) stays inside the modifies clause
	Pure        bool // modifies nothing (shorthand)
	Mode        string
	Requires    []Clause
	Ensures     []Clause
	Accum       []Clause // 'accumulates': ensures that are closed under sequencing of calls
	Modifies    []Clause
	HasModifies bool
	Loops       map[int]*LoopContract
	Uses        []string
	Props       []string
	Ghost       []ParamDecl // logical parameters
	Src         string
	File        string
	Line        int
}

type ContractDB struct {
	Funcs  map[string]*FuncContract
	Specs  map[string]*SpecFunc
	Preds  map[string]*Pred
	Lemmas map[string]*Lemma
	Order  []string // function names in file order
	LemmaOrder []string
	Guards []GuardDecl
	Regions map[string][]string
	PurePrefixes []string // packages whose functions/interface methods are assumed not to modify tracked state
	Tables []*TableDecl
	GInvs  []*GInv
}

// GInv: package invariant over initialise-once globals.
type GInv struct {
	E       SExpr
	Src     string
	Globals []string
	Pkg     string
	Props   []string
}

type GuardDecl struct {
	Field string // "Type.field"
	Mutex string // "Type.field" of the mutex
	Pkg   string
	Props []string
}

func NewContractDB() *ContractDB {
	return &ContractDB{Funcs: map[string]*FuncContract{}, Specs: map[string]*SpecFunc{}, Preds: map[string]*Pred{}, Lemmas: map[string]*Lemma{}, Regions: map[string][]string{}}
}

var topKW = map[string]bool{"spec": true, "pred": true, "def": true, "lemma": true, "axiom": true, "func": true, "assumed": true, "interface": true, "region": true, "guarded": true, "props": true, "purepkg": true, "table": true, "ginv": true, "opaque": true}
var clauseKW = map[string]bool{"requires": true, "ensures": true, "modifies": true, "nopanic": true, "nooverflow": true, "inline": true, "loop": true, "use": true, "mode": true, "by": true, "prop": true, "pure": true, "ghost": true, "nolocks": true, "writes": true, "writesonly": true, "trigger": true, "staged": true, "stagedinv": true, "reveal": true, "loopframes": true, "unreachable": true, "accumulates": true}

type rawItem struct {
	kw      string
	head    string
	clauses []rawClause
	file    string
	line    int
}
type rawClause struct {
	kw   string
	text string
}

// qualify turns a package-relative function name into the fully qualified SSA name.
func qualify(pkgPath, rel string) string {
	if strings.Contains(rel, "/") || (strings.Contains(rel, ".") && !strings.HasPrefix(rel, "(")) {
		// already qualified like unicode/utf8.RuneStart or sort.Search
		return rel
	}
	if strings.HasPrefix(rel, "(*") {
		// (*T).M  -> (*pkg.T).M
		if strings.Contains(rel[:strings.Index(rel, ")")], ".") {
			return rel
		}
		return "(*" + pkgPath + "." + rel[2:]
	}
	if strings.HasPrefix(rel, "(") {
		if strings.Contains(rel[:strings.Index(rel, ")")], ".") {
			return rel
		}
		return "(" + pkgPath + "." + rel[1:]
	}
	return pkgPath + "." + rel
}

var paramRe = regexp.MustCompile(`^\s*([A-Za-z_][A-Za-z0-9_]*)\s+(.+?)\s*$`)

func parseParams(s string) ([]ParamDecl, error) {
	s = strings.TrimSpace(s)
	if s == "" {
		return nil, nil
	}
	var out []ParamDecl
	for _, p := range strings.Split(s, ",") {
		m := paramRe.FindStringSubmatch(p)
		if m == nil {
			return nil, fmt.Errorf("bad parameter declaration %q (need 'name type')", p)
		}
		out = append(out, ParamDecl{m[1], m[2]})
	}
	return out, nil
}

// LoadContracts parses a contract file. pkgPath is the import path of the package the
// file sits in ("" for the stdlib spec file, where names are written fully qualified).
func (db *ContractDB) LoadContracts(path, pkgPath string) error {
	f, err := os.Open(path)
	if err != nil {
		return err
	}
	defer f.Close()
	sc := bufio.NewScanner(f)
	sc.Buffer(make([]byte, 1<<20), 1<<20)
	var items []*rawItem
	var cur *rawItem
	lineNo := 0
	defaultProps := []string{}
	_ = defaultProps
	for sc.Scan() {
		lineNo++
		line := sc.Text()
		t := strings.TrimSpace(line)
		if !strings.HasPrefix(t, "//@") {
			continue
		}
		t = strings.TrimSpace(t[3:])
		if t == "" || strings.HasPrefix(t, "--") {
			continue
		}
		// strip trailing comments " -- ..."
		if i := strings.Index(t, " -- "); i >= 0 {
			t = strings.TrimSpace(t[:i])
		}
		first := t
		rest := ""
		if i := strings.IndexAny(t, " \t"); i >= 0 {
			first, rest = t[:i], strings.TrimSpace(t[i+1:])
		}
		switch {
		case topKW[first]:
			cur = &rawItem{kw: first, head: rest, file: path, line: lineNo}
			items = append(items, cur)
		case clauseKW[first]:
			if cur == nil {
				return fmt.Errorf("%s:%d: clause outside item", path, lineNo)
			}
			cur.clauses = append(cur.clauses, rawClause{first, rest})
		default:
			if cur == nil {
				return fmt.Errorf("%s:%d: continuation outside item", path, lineNo)
			}
			if len(cur.clauses) > 0 {
				cur.clauses[len(cur.clauses)-1].text += " " + t
			} else {
				cur.head += " " + t
			}
		}
	}
	var props []string
	for _, it := range items {
		where := fmt.Sprintf("%s:%d", it.file, it.line)
		switch it.kw {
		case "props":
			props = strings.Fields(it.head)
		case "purepkg":
			db.PurePrefixes = append(db.PurePrefixes, strings.Fields(it.head)...)
		case "ginv":
			// ginv <expr> over g1, g2: a package invariant over package-level variables that are
			// written only by the package initialiser and never handed out (checked on every run):
			// obligation at the end of init, assumption at the entry of every other function.
			parts := strings.Split(it.head, " over ")
			if len(parts) != 2 {
				return fmt.Errorf("%s: expected 'ginv <expr> over <globals>'", where)
			}
			e, err := parseSpec(strings.TrimSpace(parts[0]))
			if err != nil {
				return fmt.Errorf("%s: %v", where, err)
			}
			gi := &GInv{E: e, Src: strings.TrimSpace(parts[0]), Pkg: pkgPath, Props: props}
			for _, g := range strings.Split(parts[1], ",") {
				gi.Globals = append(gi.Globals, strings.TrimSpace(g))
			}
			db.GInvs = append(db.GInvs, gi)
		case "table":
			td, err := parseTableDecl(it.head, pkgPath, props)
			if err != nil {
				return fmt.Errorf("%s: %v", where, err)
			}
			db.Tables = append(db.Tables, td)
		case "spec", "pred", "def", "opaque":
			// name(params) [ret] = body        ("opaque name(params) = body": an opaque predicate)
			eq := strings.Index(it.head, "=")
			// find '=' not part of ==,<=,>=,!= : the first " = "
			eq = strings.Index(it.head, " = ")
			headPart := it.head
			body := ""
			if eq >= 0 {
				headPart = it.head[:eq]
				body = it.head[eq+3:]
			}
			lp := strings.Index(headPart, "(")
			rp := strings.LastIndex(headPart, ")")
			if lp < 0 || rp < lp {
				return fmt.Errorf("%s: bad %s header %q", where, it.kw, it.head)
			}
			name := strings.TrimSpace(headPart[:lp])
			params, err := parseParams(headPart[lp+1 : rp])
			if err != nil {
				return fmt.Errorf("%s: %v", where, err)
			}
			ret := strings.TrimSpace(headPart[rp+1:])
			var be SExpr
			if body != "" {
				be, err = parseSpec(body)
				if err != nil {
					return fmt.Errorf("%s: %v", where, err)
				}
			}
			if it.kw == "spec" {
				if ret == "" {
					ret = "int"
				}
				db.Specs[name] = &SpecFunc{Name: name, Params: params, Ret: ret, Body: be, Src: it.head, Pkg: pkgPath, Uninterp: be == nil}
			} else {
				if be == nil {
					return fmt.Errorf("%s: pred without body", where)
				}
				db.Preds[name] = &Pred{Name: name, Params: params, Body: be, Src: it.head, Pkg: pkgPath, Opaque: it.kw == "opaque"}
			}
		case "lemma", "axiom":
			lp := strings.Index(it.head, "(")
			rp := strings.LastIndex(it.head, ")")
			if lp < 0 || rp < lp {
				return fmt.Errorf("%s: bad lemma header %q", where, it.head)
			}
			name := strings.TrimSpace(it.head[:lp])
			params, err := parseParams(it.head[lp+1 : rp])
			if err != nil {
				return fmt.Errorf("%s: %v", where, err)
			}
			lm := &Lemma{Name: name, Params: params, Axiom: it.kw == "axiom", Props: props, Pkg: pkgPath, Src: it.head}
			for _, c := range it.clauses {
				switch c.kw {
				case "requires", "ensures":
					e, err := parseSpec(c.text)
					if err != nil {
						return fmt.Errorf("%s: %v", where, err)
					}
					if c.kw == "requires" {
						lm.Requires = append(lm.Requires, Clause{E: e, Src: c.text})
					} else {
						lm.Ensures = append(lm.Ensures, Clause{E: e, Src: c.text})
					}
				case "by":
					// by induction v from e
					fs := strings.Fields(c.text)
					if len(fs) < 4 || fs[0] != "induction" || fs[2] != "from" {
						return fmt.Errorf("%s: expected 'by induction <var> from <expr>'", where)
					}
					lm.IndVar = fs[1]
					e, err := parseSpec(strings.Join(fs[3:], " "))
					if err != nil {
						return fmt.Errorf("%s: %v", where, err)
					}
					lm.From = e
				case "use":
					lm.Uses = append(lm.Uses, strings.Fields(c.text)...)
				case "prop":
					lm.Props = strings.Fields(c.text)
				case "reveal":
					lm.Reveal = append(lm.Reveal, strings.Fields(strings.ReplaceAll(c.text, ",", " "))...)
				case "trigger":
					// trigger e1, e2: instantiation pattern used when the lemma is handed to a
					// solver as a quantified fact (several trigger clauses = alternative patterns)
					var trig []SExpr
					for _, part := range splitTop(c.text) {
						e, err := parseSpec(part)
						if err != nil {
							return fmt.Errorf("%s: %v", where, err)
						}
						trig = append(trig, e)
					}
					lm.Triggers = append(lm.Triggers, trig)
				default:
					return fmt.Errorf("%s: clause %q not allowed in lemma", where, c.kw)
				}
			}
			db.Lemmas[name] = lm
			db.LemmaOrder = append(db.LemmaOrder, name)
		case "guarded":
			// guarded T.f, T.g by T.mu
			parts := strings.Split(it.head, " by ")
			if len(parts) != 2 {
				return fmt.Errorf("%s: bad guarded declaration", where)
			}
			for _, fld := range strings.Split(parts[0], ",") {
				db.Guards = append(db.Guards, GuardDecl{Field: strings.TrimSpace(fld), Mutex: strings.TrimSpace(parts[1]), Pkg: pkgPath, Props: props})
			}
		case "region":
			parts := strings.SplitN(it.head, "=", 2)
			if len(parts) != 2 {
				return fmt.Errorf("%s: bad region declaration", where)
			}
			var fs []string
			for _, fld := range strings.Split(parts[1], ",") {
				fs = append(fs, strings.TrimSpace(fld))
			}
			db.Regions[strings.TrimSpace(parts[0])] = fs
		case "func", "assumed", "interface":
			rel := strings.TrimSpace(it.head)
			fc := &FuncContract{RelName: rel, Name: qualify(pkgPath, rel), Pkg: pkgPath, Assumed: it.kw == "assumed" || it.kw == "interface", Iface: it.kw == "interface", Loops: map[int]*LoopContract{}, Props: props, File: it.file, Line: it.line}
			for _, c := range it.clauses {
				switch c.kw {
				case "requires", "ensures", "modifies", "accumulates":
					if c.kw == "modifies" {
						fc.HasModifies = true
						if strings.TrimSpace(c.text) == "nothing" {
							continue
						}
						for _, part := range splitTop(c.text) {
							e, err := parseSpec(part)
							if err != nil {
								return fmt.Errorf("%s: %v", where, err)
							}
							fc.Modifies = append(fc.Modifies, Clause{E: e, Src: part})
						}
						continue
					}
					cps, txt0 := splitClauseProps(c.text)
					rv, txt := splitReveal(txt0)
					e, err := parseSpec(txt)
					if err != nil {
						return fmt.Errorf("%s: %v", where, err)
					}
					if c.kw == "requires" {
						fc.Requires = append(fc.Requires, Clause{e, c.text, rv, cps})
					} else if c.kw == "accumulates" {
						// a postcondition of a callback that also holds across any run of
						// calls that stops at the first non-nil result (accum.go)
						fc.Ensures = append(fc.Ensures, Clause{e, c.text, rv, cps})
						fc.Accum = append(fc.Accum, Clause{e, c.text, rv, cps})
					} else {
						fc.Ensures = append(fc.Ensures, Clause{e, c.text, rv, cps})
					}
				case "pure":
					fc.HasModifies = true
					fc.Pure = true
				case "nolocks":
					fc.NoLocks = true
				case "staged":
					fc.Staged = true
				case "stagedinv":
					fc.StagedInv = true
				case "loopframes":
					fc.LoopFrames = true
				case "unreachable":
					// unreachable ret <k> [...]: return site k cannot be reached under the precondition
					// (dead code); every other return site must be reachable (vacuity canary)
					fs := strings.Fields(c.text)
					if len(fs) < 2 || fs[0] != "ret" {
						return fmt.Errorf("%s: expected 'unreachable ret <k>'", where)
					}
					var k int
					if _, err := fmt.Sscanf(fs[1], "%d", &k); err != nil {
						return fmt.Errorf("%s: bad return ordinal %q", where, fs[1])
					}
					if fc.DeadRets == nil {
						fc.DeadRets = map[int]bool{}
					}
					fc.DeadRets[k] = true
				case "nopanic":
					fc.NoPanic = true
				case "nooverflow":
					fc.NoOverflow = true
				case "writesonly":
					fc.WritesOnly = true
				case "writes":
					fc.HasWrites = true
					if strings.TrimSpace(c.text) != "nothing" {
						for _, part := range splitTop(c.text) {
							e, err := parseSpec(part)
							if err != nil {
								return fmt.Errorf("%s: %v", where, err)
							}
							fc.Writes = append(fc.Writes, Clause{E: e, Src: part})
						}
					}
				case "inline":
					fc.Inline = true
				case "mode":
					fc.Mode = strings.TrimSpace(c.text)
				case "use":
					fc.Uses = append(fc.Uses, strings.Fields(c.text)...)
				case "prop":
					fc.Props = strings.Fields(c.text)
				case "ghost":
					ps, err := parseParams(c.text)
					if err != nil {
						return fmt.Errorf("%s: %v", where, err)
					}
					fc.Ghost = append(fc.Ghost, ps...)
				case "loop":
					fs := strings.Fields(c.text)
					if len(fs) < 2 {
						return fmt.Errorf("%s: bad loop clause %q", where, c.text)
					}
					k, err := strconv.Atoi(fs[0])
					if err != nil {
						return fmt.Errorf("%s: bad loop ordinal %q", where, fs[0])
					}
					lc := fc.Loops[k]
					if lc == nil {
						lc = &LoopContract{}
						fc.Loops[k] = lc
					}
					restText := strings.TrimSpace(strings.TrimPrefix(strings.TrimSpace(strings.TrimPrefix(c.text, fs[0])), fs[1]))
					switch fs[1] {
					case "invariant":
						rv, txt := splitReveal(restText)
						e, err := parseSpec(txt)
						if err != nil {
							return fmt.Errorf("%s: %v", where, err)
						}
						lc.Invariants = append(lc.Invariants, Clause{E: e, Src: restText, Reveal: rv})
					case "decreases":
						e, err := parseSpec(restText)
						if err != nil {
							return fmt.Errorf("%s: %v", where, err)
						}
						lc.Decreases = &Clause{E: e, Src: restText}
					case "unroll":
						n, err := strconv.Atoi(restText)
						if err != nil {
							return fmt.Errorf("%s: bad unroll count", where)
						}
						lc.Unroll = n
					default:
						return fmt.Errorf("%s: unknown loop clause %q", where, fs[1])
					}
				default:
					return fmt.Errorf("%s: clause %q not allowed in func", where, c.kw)
				}
			}
			if _, dup := db.Funcs[fc.Name]; dup {
				return fmt.Errorf("%s: duplicate contract for %s", where, fc.Name)
			}
			db.Funcs[fc.Name] = fc
			db.Order = append(db.Order, fc.Name)
		}
	}
	return nil
}

// splitTop splits on commas that are not nested in brackets/parens.
func splitTop(s string) []string {
	var out []string
	depth := 0
	start := 0
	for i, c := range s {
		switch c {
		case '(', '[':
			depth++
		case ')', ']':
			depth--
		case ',':
			if depth == 0 {
				out = append(out, strings.TrimSpace(s[start:i]))
				start = i + 1
			}
		}
	}
	out = append(out, strings.TrimSpace(s[start:]))
	return out
}
