package main

import (
	"fmt"
	"go/token"
	"go/types"
	"strings"

	"golang.org/x/tools/go/ssa"
)

// Lock-set / guarded-by support.
//
// Ghost lock state: one heap array per mutex field, "LK_<place prefix>" : Array Int Int indexed
// by the object holding the mutex; 0 = not held by this thread, 1 = write-held, 2 = read-held.
// sync.Mutex/RWMutex semantics (mutual exclusion) are assumed; what is proved is that every
// access to a guarded field happens while the guarding lock is held (race freedom on those
// fields follows for all schedules).

type lockCfg struct{}

// guardSrc records that a map/slice value was loaded from a guarded field of object Obj.
type guardSrc struct {
	Field string // "Type.field"
	Lock  string // lock array name
	Obj   Term   // the lock object (sub-object reference of the mutex)
	Owner Term   // the object holding the guarded field
}

func (fv *FuncVerifier) initLocks(st *State) {}

func lockArrayOfPlace(p *Place) (string, Term, bool) {
	if p == nil || p.Kind != PHeap {
		return "", Term{}, false
	}
	return "LK_" + p.Prefix, p.Obj, true
}

// guardFor returns the guard declaration for a heap place (prefix "H_<Type>.<field>...").
func (fv *FuncVerifier) guardFor(p *Place) (field, lockArr string, lockObj Term, ok bool) {
	if p.Kind != PHeap || len(fv.db.Guards) == 0 {
		return "", "", Term{}, false
	}
	for _, g := range fv.db.Guards {
		pkg := fv.enc.pkgByPath(g.Pkg)
		if pkg == nil {
			continue
		}
		fp, ok1 := guardPrefix(pkg, g.Field)
		mp, ok2 := guardPrefix(pkg, g.Mutex)
		if !ok1 || !ok2 {
			continue
		}
		if p.Prefix == fp || strings.HasPrefix(p.Prefix, fp+".") {
			mt, ok3 := guardFieldType(pkg, g.Mutex)
			if !ok3 {
				continue
			}
			// the mutex is a sub-object of the guarded object
			return g.Field, "LK_H_" + typeKey(mt), fv.enc.subObj(mp, p.Obj), true
		}
	}
	return "", "", Term{}, false
}

func guardFieldType(pkg *types.Package, tf string) (types.Type, bool) {
	i := strings.LastIndex(tf, ".")
	if i < 0 {
		return nil, false
	}
	obj := pkg.Scope().Lookup(tf[:i])
	if obj == nil {
		return nil, false
	}
	st, ok := obj.Type().Underlying().(*types.Struct)
	if !ok {
		return nil, false
	}
	for k := 0; k < st.NumFields(); k++ {
		if st.Field(k).Name() == tf[i+1:] {
			return st.Field(k).Type(), true
		}
	}
	return nil, false
}

func guardPrefix(pkg *types.Package, tf string) (string, bool) {
	i := strings.LastIndex(tf, ".")
	if i < 0 {
		return "", false
	}
	obj := pkg.Scope().Lookup(tf[:i])
	if obj == nil {
		return "", false
	}
	return "H_" + typeKey(obj.Type()) + "." + tf[i+1:], true
}

// checkGuard emits the guarded-by obligation for an access to place p.
func (fv *FuncVerifier) checkGuard(st *State, p *Place, write bool, pos token.Pos) *guardSrc {
	field, lockArr, lockObj, ok := fv.guardFor(p)
	if !ok {
		return nil
	}
	la := st.heapArr(lockArr, SArr)
	state := Select(la, lockObj)
	var goal Term
	mode := "r"
	if write {
		goal = Eq(state, I(1))
		mode = "w"
	} else {
		goal = Or(Eq(state, I(1)), Eq(state, I(2)))
	}
	// freshly allocated objects are not yet shared: accesses need no lock
	goal = Or(goal, Ge(p.Obj, fv.pre.hwm))
	fv.addOb(st, "guard", fmt.Sprintf("guard[%s]@%s", field, mode), goal, fmt.Sprintf("%s access to %s requires its lock", map[bool]string{true: "write", false: "read"}[write], field), pos)
	fv.atomicity(st, field, lockArr, lockObj, p.Obj, write, pos)
	return &guardSrc{Field: field, Lock: lockArr, Obj: lockObj, Owner: p.Obj}
}

// guardAccess: access to the contents of a map value (lookup, update, range, len, delete).
func (fv *FuncVerifier) guardAccess(st *State, m ssa.Value, write bool, pos token.Pos) {
	v, ok := st.regs[m]
	if !ok || v.Guard == nil {
		return
	}
	g := v.Guard
	la := st.heapArr(g.Lock, SArr)
	state := Select(la, g.Obj)
	var goal Term
	mode := "r"
	if write {
		goal = Eq(state, I(1))
		mode = "w"
	} else {
		goal = Or(Eq(state, I(1)), Eq(state, I(2)))
	}
	goal = Or(goal, Ge(g.Owner, fv.pre.hwm))
	fv.addOb(st, "guard", fmt.Sprintf("guard[%s contents]@%s", g.Field, mode), goal, fmt.Sprintf("%s of the contents of %s requires its lock", map[bool]string{true: "update", false: "read"}[write], g.Field), pos)
	fv.atomicity(st, g.Field+" contents", g.Lock, g.Obj, g.Owner, write, pos)
}

// atomicity (check-then-act): a write to a guarded field/map must happen in the same critical
// section as this function's most recent read of it; otherwise the decision that led to the
// write was taken on a state other goroutines may have changed since (lost collision checks).
func (fv *FuncVerifier) atomicity(st *State, field, lockArr string, lockObj, owner Term, write bool, pos token.Pos) {
	en := "LKE_" + strings.TrimPrefix(lockArr, "LK_")
	cur := Select(st.heapArr(en, SArr), lockObj)
	key := field + "|" + owner.S
	if !write {
		n := fv.enc.fresh("section", SInt)
		st.assume(Eq(n, cur))
		st.lastRead[key] = n
		return
	}
	if prev, ok := st.lastRead[key]; ok {
		goal := Or(Eq(prev, I(-1)), Eq(cur, prev), Ge(owner, fv.pre.hwm))
		fv.addOb(st, "guard", fmt.Sprintf("atomic[%s]", field), goal, "the write to "+field+" must be in the same critical section as the preceding read of it (check-then-act)", pos)
	}
}

// guardInvoke: a method is invoked on an interface value loaded from a guarded field.
func (fv *FuncVerifier) guardInvoke(st *State, g *guardSrc, method string, pos token.Pos) {
	la := st.heapArr(g.Lock, SArr)
	state := Select(la, g.Obj)
	goal := Eq(state, I(1))
	fv.addOb(st, "guard", fmt.Sprintf("guard[%s.%s()]@x", g.Field, method), goal, "the callback in "+g.Field+" may only be invoked while holding its lock exclusively (never concurrently)", pos)
}

// markMapDirty: the content version of the updated map changes (map values are otherwise opaque).
func (fv *FuncVerifier) markMapDirty(st *State, m ssa.Value) {
	mv := st.get(m)
	a := st.heapArr("M_content", SArr)
	nv := fv.enc.fresh("mapver", SInt)
	st.setHeap("M_content", Store(a, mv.L[0], nv))
}

// Key presence: mhas(version, key) says whether the map content with that version number holds
// an entry for the key. Keys are abstracted to integers by mapKey: an integer key is itself, a
// string key is skey(id, off, len) - the same string value has the same key, nothing is known
// about different string values (they may or may not have equal contents), which is sound.
//
// Presence is also indexed by an "interference epoch" (ghost GH_mepoch): acquiring a lock starts
// a new epoch, because other goroutines may have changed a guarded map while this one did not
// hold the lock - so a lookup repeated after re-acquiring a lock is not assumed to give the same
// answer (the double check in importPackage), while the map's own content version, which only
// this goroutine's updates change, stays what "unchanged(Region)" compares.
func (s *State) mhas(ver, key Term) Term {
	s.enc.declareFun("mhas", []string{"Int", "Int", "Int"}, "Bool")
	return app(SBool, "mhas", ver, s.heapArr("GH_mepoch", SInt), key)
}

func (s *State) newMapEpoch() {
	s.heap["GH_mepoch"] = s.enc.fresh("GH_mepoch", SInt)
}

func (e *Enc) mapKey(k Value) (Term, bool) {
	if isString(k.Typ) && len(k.L) == 3 {
		e.declareFun("skey", []string{"Int", "Int", "Int"}, "Int")
		return app(SInt, "skey", k.L[0], k.L[1], k.L[2]), true
	}
	if len(k.L) == 1 && k.L[0].Sort == SInt && k.Place == nil {
		return k.L[0], true
	}
	if _, isIface := k.Typ.Underlying().(*types.Interface); isIface && len(k.L) == 2 && k.Place == nil {
		// interface-typed key: equal keys have equal dynamic type and value (the converse is not
		// claimed: ikey is uninterpreted, so "another key" is only concluded from different ikeys)
		e.declareFun("ikey", []string{"Int", "Int"}, "Int")
		return app(SInt, "ikey", k.L[0], k.L[1]), true
	}
	return Term{}, false
}

// mapSetKey: the map's content changes so that key is present (or absent); every other key is
// as before.
func (fv *FuncVerifier) mapSetKey(st *State, m ssa.Value, key Term, present bool, val *Value) {
	mv := st.get(m)
	a := st.heapArr("M_content", SArr)
	ov := Select(a, mv.L[0])
	nv := fv.enc.fresh("mapver", SInt)
	st.setHeap("M_content", Store(a, mv.L[0], nv))
	if present {
		st.assume(st.mhas(nv, key))
	} else {
		st.assume(Not(st.mhas(nv, key)))
	}
	j := Term{"j!m", SInt}
	st.assume(Term{"(forall ((j!m Int)) (! " + Implies(Not(Eq(j, key)), Eq(st.mhas(nv, j), st.mhas(ov, j))).S + " :pattern (" + st.mhas(nv, j).S + ")))", SBool})
	// the stored value (its integer-sorted words: references, dynamic types, numbers): the
	// entry written holds the value written, every other entry holds what it held
	if mt, ok := mv.Typ.Underlying().(*types.Map); ok {
		for i, l := range flatten(mt.Elem()) {
			if l.Sort != SInt {
				continue
			}
			if val != nil && i < len(val.L) && val.L[i].Sort == SInt && val.Place == nil {
				st.assume(Eq(st.mval(nv, key, i), val.L[i]))
			}
			st.assume(Term{"(forall ((j!m Int)) (! " + Implies(Not(Eq(j, key)), Eq(st.mval(nv, j, i), st.mval(ov, j, i))).S + " :pattern (" + st.mval(nv, j, i).S + ")))", SBool})
		}
	}
}

// mval(version, epoch, key, word): word number `word` of the value stored under the key (only
// integer-sorted words are modelled); an absent key reads as the zero value (lookup).
func (s *State) mval(ver, key Term, word int) Term {
	s.enc.declareFun("mval", []string{"Int", "Int", "Int", "Int"}, "Int")
	return app(SInt, "mval", ver, s.heapArr("GH_mepoch", SInt), key, I(int64(word)))
}

func (fv *FuncVerifier) checkLocksAtExit(st *State, retIdx int, pos token.Pos) {}

func (fv *FuncVerifier) locksInFrame() bool { return true }

// lockPred: wheld(x.mu), rheld(x.mu), held(x.mu) (either), unheld(x.mu)
func (env *Env) lockPred(x *SCall) Value {
	if len(x.Args) != 1 {
		env.fail("%s takes one argument", x.Fn)
	}
	f, ok := x.Args[0].(*SField)
	if !ok {
		env.fail("%s: argument must be a mutex field x.mu", x.Fn)
	}
	base := env.eval(f.X)
	t, isPtr := derefType(base.Typ)
	if !isPtr {
		env.fail("%s: %s is not a pointer", x.Fn, f.X.String())
	}
	if _, isStruct := t.Underlying().(*types.Struct); !isStruct {
		env.fail("%s: not a struct", x.Fn)
	}
	stt := t.Underlying().(*types.Struct)
	var mt types.Type
	for k := 0; k < stt.NumFields(); k++ {
		if stt.Field(k).Name() == f.Name {
			mt = stt.Field(k).Type()
		}
	}
	if mt == nil {
		env.fail("%s: no field %s", x.Fn, f.Name)
	}
	arr := env.st.heapArr("LK_H_"+typeKey(mt), SArr)
	state := Select(arr, env.enc.subObj("H_"+typeKey(t)+"."+f.Name, base.L[0]))
	if base.Place != nil && base.Place.Kind == PLocal {
		// an object allocated by this activation that has not escaped yet: its mutexes are free
		// and its sync.Once has not run
		state = I(0)
	}
	switch x.Fn {
	case "wheld":
		return boolVal(Eq(state, I(1)))
	case "rheld":
		return boolVal(Eq(state, I(2)))
	case "held":
		return boolVal(Or(Eq(state, I(1)), Eq(state, I(2))))
	case "unheld":
		return boolVal(Eq(state, I(0)))
	case "done": // sync.Once: Do has completed
		return boolVal(Eq(state, I(1)))
	case "oncewf": // sync.Once ghost state is 0 or 1
		return boolVal(Or(Eq(state, I(0)), Eq(state, I(1))))
	}
	env.fail("unknown lock predicate")
	return Value{}
}

// unchanged(Region): every heap array of the region's fields equals its old version, and no map
// that existed in the old state was updated.
func (env *Env) unchanged(x *SCall) Value {
	if env.old == nil {
		env.fail("unchanged() needs a two-state context")
	}
	id, ok := x.Args[0].(*SIdent)
	if !ok {
		env.fail("unchanged: region name expected")
	}
	fields, ok := env.enc.db.Regions[id.Name]
	if !ok {
		env.fail("unknown region %s", id.Name)
	}
	var cs []Term
	for _, tf := range fields {
		if strings.HasPrefix(tf, "ghost:") {
			cur := env.st.heapArr("GH_"+tf[6:], SInt)
			old := env.old.heapArr("GH_"+tf[6:], SInt)
			cs = append(cs, Eq(cur, old))
			continue
		}
		i := strings.LastIndex(tf, ".")
		t := env.resolveType(tf[:i])
		st, ok := t.Underlying().(*types.Struct)
		if !ok {
			env.fail("region field %s: not a struct type", tf)
		}
		var ft types.Type
		for k := 0; k < st.NumFields(); k++ {
			if st.Field(k).Name() == tf[i+1:] {
				ft = st.Field(k).Type()
			}
		}
		if ft == nil {
			env.fail("region field %s not found", tf)
		}
		prefix := "H_" + typeKey(t) + "." + tf[i+1:]
		env.enc.registerRefLeaves("H_"+typeKey(t), t, 1)
		for _, l := range flatten(ft) {
			name := prefix + l.Suffix
			cur := env.st.heapArr(name, arrSort(l.Sort))
			old := env.old.heapArr(name, arrSort(l.Sort))
			if cur.S == old.S {
				continue
			}
			r := Term{"r!u", SInt}
			cs = append(cs, Forall([]string{"r!u"}, Implies(And(Le(I(0), r), Lt(r, env.old.hwm)), Eq(Select(cur, r), Select(old, r)))))
		}
	}
	cur := env.st.heapArr("M_content", SArr)
	old := env.old.heapArr("M_content", SArr)
	if cur.S != old.S {
		r := Term{"r!u", SInt}
		cs = append(cs, Forall([]string{"r!u"}, Implies(And(Le(I(0), r), Lt(r, env.old.hwm)), Eq(Select(cur, r), Select(old, r)))))
	}
	return boolVal(And(cs...))
}

// ---------------------------------------------------------------------------
// natives for sync

func lockNative(doc string, requireState []int64, newState int64, what string) *native {
	return &native{
		doc: doc, pure: false, prefixes: []string{"LK_", "LKE_"},
		apply: func(fv *FuncVerifier, st *State, cc *ssa.CallCommon, args []Value, pos token.Pos) Value {
			if len(args) == 0 {
				return Value{}
			}
			var name string
			var obj Term
			if args[0].Place == nil {
				// a plain *Mutex reference (sub-object or separately allocated mutex)
				pt, ok := args[0].Typ.Underlying().(*types.Pointer)
				if !ok {
					return Value{}
				}
				name, obj = "LK_H_"+typeKey(pt.Elem()), args[0].L[0]
			} else {
				var ok bool
				name, obj, ok = lockArrayOfPlace(st.resolve(args[0].Place))
				if !ok {
					return Value{}
				}
			}
			la := st.heapArr(name, SArr)
			cur := Select(la, obj)
			if len(requireState) > 0 {
				var ds []Term
				for _, s := range requireState {
					ds = append(ds, Eq(cur, I(s)))
				}
				g := Or(ds...)
				fv.addOb(st, "lock", fmt.Sprintf("lock[%s %s]", what, strings.TrimPrefix(name, "LK_H_")), g, what+" needs the lock in the right state", pos)
				st.assume(g)
			} else {
				// acquiring: if this goroutine already held the lock the call would never return
				// (sync mutexes are not reentrant), so on return it was not held (partial correctness)
				st.assume(Eq(cur, I(0)))
				st.newMapEpoch()
			}
			st.setHeap(name, Store(la, obj, I(newState)))
			if newState == 0 {
				// leaving a critical section: bump the lock's section counter (atomicity checks)
				en := "LKE_" + strings.TrimPrefix(name, "LK_")
				ea := st.heapArr(en, SArr)
				st.setHeap(en, Store(ea, obj, Add(Select(ea, obj), I(1))))
			}
			return Value{}
		},
	}
}

func initLockNatives() {
	natives["(*sync.Mutex).Lock"] = lockNative("assumed: mutual exclusion; ghost state 0->1", nil, 1, "Lock")
	natives["(*sync.Mutex).Unlock"] = lockNative("assumed: ghost state 1->0; unlocking an unheld mutex is an error", []int64{1}, 0, "Unlock")
	natives["(*sync.RWMutex).Lock"] = lockNative("assumed: mutual exclusion; ghost state 0->1", nil, 1, "Lock")
	natives["(*sync.RWMutex).Unlock"] = lockNative("assumed: ghost state 1->0", []int64{1}, 0, "Unlock")
	natives["(*sync.RWMutex).RLock"] = lockNative("assumed: shared lock; ghost state 0->2", nil, 2, "RLock")
	natives["(*sync.RWMutex).RUnlock"] = lockNative("assumed: ghost state 2->0", []int64{2}, 0, "RUnlock")
	// (*sync.Once).Do(f): ghost state of the Once value 0 (not done) -> 1 (done). On a Once that is
	// not done, f is called once, synchronously, and the Once is done afterwards; on a done Once
	// nothing happens. The two cases are executed separately and merged.
	natives["(*sync.Once).Do"] = &native{
		doc: "assumed: Once.Do(f) on a Once that has not run yet calls f exactly once, synchronously, then marks the Once done; on a Once that is done it does nothing (ghost state 0->1)", havocAll: true,
		apply: func(fv *FuncVerifier, st *State, cc *ssa.CallCommon, args []Value, pos token.Pos) Value {
			var name string
			var obj Term
			if args[0].Place == nil {
				pt, ok := args[0].Typ.Underlying().(*types.Pointer)
				if !ok {
					panic(unsupported("sync.Once.Do on a non-pointer"))
				}
				name, obj = "LK_H_"+typeKey(pt.Elem()), args[0].L[0]
			} else {
				var ok bool
				name, obj, ok = lockArrayOfPlace(st.resolve(args[0].Place))
				if !ok {
					panic(unsupported("sync.Once.Do on a local Once"))
				}
			}
			clo := args[1].Clo
			var c *FuncContract
			if clo != nil {
				c = fv.db.Funcs[clo.Fn.String()]
			}
			if c == nil {
				fv.enc.havocAllCalls["sync.Once.Do with a callback without contract"] = true
				st.havocAll()
				la := st.heapArr(name, SArr)
				st.setHeap(name, Store(la, obj, I(1)))
				return Value{}
			}
			cur := Select(st.heapArr(name, SArr), obj)
			a := st.clone()
			a.assume(Eq(cur, I(1)))
			b := st.clone()
			b.assume(Eq(cur, I(0)))
			fv.applyContract(b, c, clo.Fn.String(), nil, nil, clo.Fn.Signature, &calleeInfo{fn: clo.Fn, clo: clo}, pos)
			b.setHeap(name, Store(b.heapArr(name, SArr), obj, I(1)))
			m := fv.merge2(a, b)
			*st = *m
			return Value{}
		},
	}
}
