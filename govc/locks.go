package main

import (
	"go/token"

	"golang.org/x/tools/go/ssa"
)

// lock-set / guarded-by support (filled in for C16/C17/C08)

type lockCfg struct{}

func (fv *FuncVerifier) initLocks(st *State) {}

func (fv *FuncVerifier) guardAccess(st *State, m ssa.Value, write bool, pos token.Pos) {}

func (fv *FuncVerifier) markMapDirty(st *State, m ssa.Value) {
	st.havocPrefix("M_")
}

func (fv *FuncVerifier) checkLocksAtExit(st *State, retIdx int, pos token.Pos) {}

func (fv *FuncVerifier) locksInFrame() bool { return false }

func (env *Env) lockPred(x *SCall) Value {
	env.fail("lock predicates not available yet")
	return Value{}
}

func (env *Env) unchanged(x *SCall) Value {
	env.fail("unchanged() not available yet")
	return Value{}
}
