package main

import (
	"fmt"
	"go/token"
	"os"
	"strings"

	"golang.org/x/tools/go/ssa"
)

// Automatic inlining of small helpers without a contract.
//
// A callee of the repository that has no contract used to be treated as modifying the whole
// heap, which makes every obligation after the call fail. That is the right answer for a callee
// that really is unknown, but it turns a behaviour-preserving "extract helper" refactoring of a
// verified function into an alarm. A callee that is small, loop-free, defer-free, not recursive
// and lives in the repository is therefore executed symbolically in place (its obligations
// -- bounds, nil, division, explicit panics -- count as the caller's). Anything the inliner
// cannot handle falls back to the old treatment.

const inlineMaxInstrs = 120

var inlineDepth = 0

func inlinable(caller, callee *ssa.Function) bool {
	return inlinableLoops(caller, callee, false)
}

func inlinableLoops(caller, callee *ssa.Function, allowLoops bool) bool {
	if callee == nil || callee == caller || len(callee.Blocks) == 0 || len(callee.FreeVars) > 0 {
		return false
	}
	if callee.Pkg == nil || callee.Pkg.Pkg == nil || !strings.HasPrefix(callee.Pkg.Pkg.Path(), "github.com/bufbuild/protocompile") {
		return false
	}
	n := 0
	idx := map[*ssa.BasicBlock]int{}
	for i, b := range callee.Blocks {
		idx[b] = i
	}
	// loop-free: no edge to a block that can reach its source (checked with a DFS colouring)
	color := map[*ssa.BasicBlock]int{}
	loop := false
	var dfs func(b *ssa.BasicBlock)
	dfs = func(b *ssa.BasicBlock) {
		color[b] = 1
		for _, s := range b.Succs {
			switch color[s] {
			case 0:
				dfs(s)
			case 1:
				loop = true
			}
		}
		color[b] = 2
	}
	dfs(callee.Blocks[0])
	if loop && !allowLoops {
		return false
	}
	for _, b := range callee.Blocks {
		for _, ins := range b.Instrs {
			n++
			switch x := ins.(type) {
			case *ssa.Defer, *ssa.Go, *ssa.Select, *ssa.Send, *ssa.MakeClosure, *ssa.Range, *ssa.Next:
				return false
			case *ssa.Call:
				if c := x.Call.StaticCallee(); c == callee || c == caller {
					return false
				}
			}
		}
	}
	return n <= inlineMaxInstrs
}

// tryInline executes callee in place. ok=false: nothing was changed (the caller falls back).
func (fv *FuncVerifier) tryInline(st *State, instr ssa.Instruction, callee *ssa.Function, args []Value, pos token.Pos) (res Value, ok bool) {
	return fv.tryInlineWith(st, instr, callee, args, pos, nil)
}

// tryInlineWith: ic != nil is the callee's own contract carrying "inline" and, for each of its
// loops, "loop k unroll n"; the body is then executed path by path.
func (fv *FuncVerifier) tryInlineWith(st *State, instr ssa.Instruction, callee *ssa.Function, args []Value, pos token.Pos, ic *FuncContract) (res Value, ok bool) {
	callVal, isVal := instr.(ssa.Value)
	if !isVal || inlineDepth >= 3 || !inlinableLoops(fv.fn, callee, ic != nil) || len(args) != len(callee.Params) {
		if os.Getenv("GOVC_DEBUG_INLINE") != "" {
			fmt.Fprintf(os.Stderr, "not inlining %s into %s: value=%v depth=%d inlinable=%v args=%d/%d blocks=%d freevars=%d pkg=%v\n", callee, fv.fn, isVal, inlineDepth, inlinable(fv.fn, callee), len(args), len(callee.Params), len(callee.Blocks), len(callee.FreeVars), callee.Pkg)
		}
		return Value{}, false
	}
	snapshot := st.clone()
	nObs, nErrs := len(fv.obs), len(fv.errs)
	inlineDepth++
	defer func() { inlineDepth-- }()
	fv2 := *fv
	var rets []*State
	fv2.fn = callee
	fv2.inlineRets = &rets
	fv2.loops = nil
	fv2.retOrd = map[*ssa.Return]int{}
	if ic != nil {
		fc2 := *fv.fc
		fc2.Loops = ic.Loops
		fv2.fc = &fc2
		fv2.findLoops()
		for _, li := range fv2.loops {
			if li.lc == nil || li.lc.Unroll <= 0 {
				panic("inline: loop without an unroll bound")
			}
		}
	}
	defer func() {
		if r := recover(); r != nil {
			// out of the subset, or an internal limitation: undo and let the caller havoc
			if os.Getenv("GOVC_DEBUG_INLINE") != "" {
				fmt.Fprintf(os.Stderr, "inline %s into %s failed: %v\n", callee, fv.fn, r)
			}
			*st = *snapshot
			fv.obs = fv.obs[:nObs]
			fv.errs = fv.errs[:nErrs]
			res, ok = Value{}, false
		}
	}()
	prev := st.prev
	for i, p := range callee.Params {
		a := args[i]
		a.Typ = p.Type()
		st.regs[p] = a
	}
	work := st.clone()
	work.prev = nil
	// the callee has no defer statements of its own; its RunDefers must not run the caller's
	callerDefers := st.defers
	work.defers = nil
	if ic != nil && len(fv2.loops) > 0 {
		fv2.runBlock(work, callee.Blocks[0])
	} else {
		fv2.runMerged(work)
	}
	fv.obs, fv.errs = fv2.obs, fv2.errs
	fv.paths, fv.panicPaths = fv2.paths, fv2.panicPaths
	if len(fv.errs) > nErrs {
		panic("inline: callee reported errors")
	}
	if len(rets) == 0 {
		// every path of the callee panics: the call does not return
		panic("inline: callee never returns")
	}
	for _, r := range rets {
		r.regs[callVal] = r.inlineResult
		r.prev = nil
	}
	m := rets[0]
	for _, r := range rets[1:] {
		m = fv.merge2(m, r)
	}
	res = m.regs[callVal]
	// forget the callee's registers and locals (a second inlining of the same callee re-uses them)
	for _, b := range callee.Blocks {
		for _, ins := range b.Instrs {
			if v, isV := ins.(ssa.Value); isV {
				delete(m.regs, v)
				delete(m.cells, v)
				delete(m.promoted, v)
			}
		}
	}
	for _, p := range callee.Params {
		delete(m.regs, p)
	}
	delete(m.regs, callVal)
	m.prev = prev
	m.defers = callerDefers
	m.inlineResult = Value{}
	*st = *m
	fv.enc.assumedUsed["inlined (small helper without a contract, executed in place): "+shortName(callee.String())] = true
	return res, true
}
