package main

import (
	"go/types"
	"sort"
	"strings"

	"golang.org/x/tools/go/ssa"
)

// autoGuardSweep: zero-annotation part of the guarded-by check. Every function of a package with
// `guarded` declarations that touches a guarded field is put under an (empty) contract so that
// its accesses generate guard obligations. The enumeration is exhaustive for the package because
// the guarded fields are unexported.
func autoGuardSweep(ld *Loaded, want map[string]bool) {
	db := ld.DB
	type key struct{ pkg, typ, field string }
	guarded := map[key][]string{}
	for _, g := range db.Guards {
		if !hasProp(g.Props, want) {
			continue
		}
		i := strings.LastIndex(g.Field, ".")
		if i < 0 {
			continue
		}
		guarded[key{g.Pkg, g.Field[:i], g.Field[i+1:]}] = g.Props
	}
	if len(guarded) == 0 {
		return
	}
	idx := funcIndex(ld.Prog)
	var names []string
	for n := range idx {
		names = append(names, n)
	}
	sort.Strings(names)
	for _, n := range names {
		fn := idx[n]
		pkg := fn.Pkg
		if pkg == nil && fn.Parent() != nil {
			pkg = fn.Parent().Pkg
		}
		if pkg == nil || len(fn.Blocks) == 0 {
			continue
		}
		var props []string
		for _, b := range fn.Blocks {
			for _, ins := range b.Instrs {
				fa, ok := ins.(*ssa.FieldAddr)
				if !ok {
					continue
				}
				pt, ok := fa.X.Type().Underlying().(*types.Pointer)
				if !ok {
					continue
				}
				named, ok := pt.Elem().(*types.Named)
				if !ok {
					continue
				}
				st := named.Underlying().(*types.Struct)
				k := key{pkg.Pkg.Path(), named.Obj().Name(), st.Field(fa.Field).Name()}
				if p, ok := guarded[k]; ok && named.Obj().Pkg() == pkg.Pkg {
					props = p
				}
			}
		}
		if props == nil {
			continue
		}
		if fc, ok := db.Funcs[n]; ok {
			// make sure an existing contract is also run for the guard property
			for _, p := range props {
				if !hasProp(fc.Props, map[string]bool{p: true}) {
					fc.Props = append(fc.Props, p)
				}
			}
			continue
		}
		db.Funcs[n] = &FuncContract{Name: n, RelName: n, Pkg: pkg.Pkg.Path(), Loops: map[int]*LoopContract{}, Props: props, Auto: true}
		db.Order = append(db.Order, n)
	}
}
