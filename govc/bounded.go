package main

import (
	"encoding/json"
	"fmt"
	"os"
	"path/filepath"
	"regexp"
	"strings"
	"time"
)

// Bounded stand-ins: executable contracts run on the real functions over an exhaustively
// enumerated small scope (labelled bounded; never counted as proved). Each harness is a Go test
// injected with `go test -overlay`; it prints
//   BOUNDED: {json summary}            once
//   BOUNDED-FAIL: <case>: <detail>     per failing case

type boundedSpec struct {
	Name     string `json:"name"`
	Pkg      string `json:"pkg"`
	File     string `json:"file"`
	Run      string `json:"run"`
	Thorough bool   `json:"thorough_only"`
	Timeout  int    `json:"timeout"`
	Race     string `json:"race"` // "always" or "thorough": run under the race detector
}

type boundedFailure struct {
	Case   string
	Detail string
}

type boundedResult struct {
	Name        string
	Evaluations int
	Distinct    int
	Rule        string
	Exhaustive  bool
	Bound       string
	Samples     []any
	Failures    []boundedFailure
	Wall        float64
}

var boundedSummaryRe = regexp.MustCompile(`(?m)^\s*(?:\S+: )?BOUNDED: (\{.*\})\s*$`)
var boundedFailRe = regexp.MustCompile(`(?m)^\s*(?:\S+: )?BOUNDED-FAIL: (\S+?): (.*)$`)
var boundedFailAny = regexp.MustCompile(`(?m)BOUNDED-FAIL`)

func runBounded(id, tier, repo, verif string, seed int) []boundedResult {
	b, err := os.ReadFile(filepath.Join(verif, "bounded", id+".json"))
	if err != nil {
		return nil
	}
	var specs []boundedSpec
	if err := json.Unmarshal(b, &specs); err != nil {
		fmt.Println("bounded spec:", err)
		return nil
	}
	var out []boundedResult
	for _, sp := range specs {
		if sp.Thorough && tier != "thorough" {
			continue
		}
		to := sp.Timeout
		if to == 0 {
			to = 300
		}
		os.Setenv("VERIF_TIER", tier)
		os.Setenv("VERIF_SEED", fmt.Sprint(seed))
		os.Setenv("VERIF_RACE", "")
		if sp.Race == "always" || (sp.Race == "thorough" && tier == "thorough") {
			os.Setenv("VERIF_RACE", "1")
		}
		t0 := time.Now()
		txt, _ := runOverlayTest(repo, sp.Pkg, filepath.Join(verif, "bounded", sp.File), sp.Run, to)
		os.Setenv("VERIF_RACE", "")
		r := boundedResult{Name: sp.Name, Wall: time.Since(t0).Seconds()}
		if strings.Contains(txt, "WARNING: DATA RACE") {
			i := strings.Index(txt, "WARNING: DATA RACE")
			r.Failures = append(r.Failures, boundedFailure{"data-race", truncate(txt[i:], 1500)})
		}
		if m := boundedSummaryRe.FindStringSubmatch(txt); m != nil {
			var s struct {
				Evaluations int    `json:"evaluations"`
				Distinct    int    `json:"distinct"`
				Rule        string `json:"rule"`
				Exhaustive  bool   `json:"exhaustive"`
				Bound       string `json:"bound"`
				Samples     []any  `json:"samples"`
			}
			if err := json.Unmarshal([]byte(m[1]), &s); err == nil {
				r.Evaluations, r.Distinct, r.Rule, r.Exhaustive, r.Bound, r.Samples = s.Evaluations, s.Distinct, s.Rule, s.Exhaustive, s.Bound, s.Samples
			} else {
				r.Failures = append(r.Failures, boundedFailure{"harness", "bounded harness summary is not valid JSON (" + err.Error() + "): " + truncate(m[1], 600)})
			}
			if r.Evaluations == 0 {
				r.Failures = append(r.Failures, boundedFailure{"harness", "bounded harness reports zero evaluations (vacuous run)"})
			}
		} else {
			// the harness did not complete: that is a failure of the check itself
			r.Failures = append(r.Failures, boundedFailure{"harness", "bounded harness produced no summary: " + truncate(strings.TrimSpace(txt), 1500)})
		}
		ms := boundedFailRe.FindAllStringSubmatch(txt, -1)
		for i, m := range ms {
			if i < 50 {
				r.Failures = append(r.Failures, boundedFailure{strings.TrimSpace(m[1]), strings.TrimSpace(m[2])})
			}
		}
		// a failure line the pattern above cannot parse must never be dropped silently
		if n := len(boundedFailAny.FindAllStringIndex(txt, -1)); n != len(ms) {
			r.Failures = append(r.Failures, boundedFailure{"harness", fmt.Sprintf("%d BOUNDED-FAIL lines of which only %d could be parsed", n, len(ms))})
		}
		out = append(out, r)
	}
	return out
}
