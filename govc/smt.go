package main

import (
	"bytes"
	"context"
	"fmt"
	"os"
	"os/exec"
	"path/filepath"
	"regexp"
	"sort"
	"strings"
	"sync"
	"time"
)

type SolveResult struct {
	Status  string // "unsat","sat","unknown","timeout","error"
	Solver  string
	Seconds float64
	Model   string
	Output  string
	File    string
	Tried   []string
	Part    string // failing conjunct, when the goal was split
	Confirm string // cross-check by a second solver: "<solver>:<status>"
}

// specDefs renders the definitions of all spec functions reachable from the used set.
func (e *Enc) specDefs(axiomFlavour bool) string {
	// closure of used specs: evaluate bodies (which marks callees as used) until fixpoint
	type def struct {
		name   string
		text   string
		callee map[string]bool
		rec    bool
	}
	defs := map[string]*def{}
	for {
		progress := false
		for _, name := range sortedKeys(e.usedSpecs) {
			if _, ok := defs[name]; ok {
				continue
			}
			progress = true
			sf := e.db.Specs[name]
			before := map[string]bool{}
			for k := range e.usedSpecs {
				before[k] = true
			}
			vars := map[string]Value{}
			var params []string
			var argSorts []string
			for _, p := range sf.Params {
				vars[p.Name] = specParamValue(p, p.Name)
				for _, l := range specParamLeaves(p.Type) {
					params = append(params, fmt.Sprintf("(%s %s)", p.Name+l.Suffix, l.Sort))
					argSorts = append(argSorts, l.Sort)
				}
			}
			rs := SInt
			if sf.Ret == "bool" {
				rs = SBool
			}
			d := &def{name: name, callee: map[string]bool{}}
			if sf.Uninterp {
				d.text = fmt.Sprintf("(declare-fun %s (%s) %s)", name, strings.Join(argSorts, " "), rs)
				defs[name] = d
				continue
			}
			// mark: find direct callees by evaluating with a fresh used-set
			saved := e.usedSpecs
			e.usedSpecs = map[string]bool{}
			env := &Env{enc: e, vars: vars, nb: &e.nfresh, noHeap: true, pkg: e.pkgByPath(sf.Pkg)}
			body := env.eval(sf.Body)
			for k := range e.usedSpecs {
				d.callee[k] = true
			}
			e.usedSpecs = saved
			for k := range d.callee {
				e.usedSpecs[k] = true
			}
			d.rec = d.callee[name]
			kw := "define-fun"
			if d.rec {
				kw = "define-fun-rec"
			}
			if len(body.L) != 1 || body.L[0].Sort != rs {
				panic(specErr(fmt.Sprintf("spec %s: body sort mismatch", name)))
			}
			d.text = fmt.Sprintf("(%s %s (%s) %s %s)", kw, name, strings.Join(params, " "), rs, body.L[0].S)
			defs[name] = d
		}
		if !progress {
			break
		}
	}
	// topological order (callees first)
	var order []string
	done := map[string]bool{}
	var visit func(n string)
	visit = func(n string) {
		if done[n] {
			return
		}
		done[n] = true
		d := defs[n]
		if d == nil {
			return
		}
		for _, c := range sortedKeys(d.callee) {
			if c != n {
				visit(c)
			}
		}
		order = append(order, n)
	}
	for _, n := range sortedKeys(defs) {
		visit(n)
	}
	var sb strings.Builder
	for _, n := range order {
		sb.WriteString(defs[n].text)
		sb.WriteString("\n")
	}
	return sb.String()
}

func (e *Enc) prelude() string {
	var sb strings.Builder
	sd := e.specDefs(false)
	for _, f := range e.funOrder {
		sb.WriteString(e.funs[f])
		sb.WriteString("\n")
	}
	sb.WriteString(sd)
	for _, d := range e.declOrder {
		fmt.Fprintf(&sb, "(declare-const %s %s)\n", d, e.decls[d])
	}
	for _, a := range e.axioms {
		fmt.Fprintf(&sb, "(assert %s)\n", a)
	}
	if _, ok := e.funs["sbyte"]; ok && os.Getenv("GOVC_NO_SBYTE") == "" {
		// the bytes of a string are bytes
		fmt.Fprintf(&sb, "(assert (forall ((i!s Int) (p!s Int)) (! (and (<= 0 (sbyte i!s p!s)) (<= (sbyte i!s p!s) 255)) :pattern ((sbyte i!s p!s)))))\n")
	}
	for _, a := range e.implFacts() {
		fmt.Fprintf(&sb, "(assert %s)\n", a)
	}
	return sb.String()
}

// goalInPC: every conjunct of the goal literally occurs as a (conjunct of a) path-condition
// assertion. Sound: A ∧ ... ==> A.
func goalInPC(ob *Obligation) bool {
	have := map[string]bool{}
	for _, p := range ob.PC {
		if len(p.S) > 20000 {
			have[p.S] = true
			continue
		}
		for _, c := range splitAnd(p) {
			have[c.S] = true
		}
	}
	for _, g := range splitAnd(ob.Goal) {
		if !have[g.S] {
			return false
		}
	}
	return true
}

// splitAnd returns the top-level conjuncts of an SMT term (recursively through nested "and").
func splitAnd(t Term) []Term {
	s := t.S
	if !strings.HasPrefix(s, "(and ") {
		return []Term{t}
	}
	var out []Term
	depth := 0
	start := -1
	body := s[5 : len(s)-1]
	for i := 0; i < len(body); i++ {
		c := body[i]
		switch {
		case c == '(':
			if depth == 0 && start < 0 {
				start = i
			}
			depth++
		case c == ')':
			depth--
			if depth == 0 && start >= 0 {
				out = append(out, splitAnd(Term{body[start : i+1], SBool})...)
				start = -1
			}
		case c == ' ':
			if depth == 0 && start >= 0 {
				out = append(out, Term{body[start:i], SBool})
				start = -1
			}
		default:
			if depth == 0 && start < 0 {
				start = i
			}
		}
	}
	if start >= 0 {
		out = append(out, Term{body[start:], SBool})
	}
	return out
}

// groundQuery: the query for goal with every quantified fact of the path condition dropped (the
// definitional axioms of the prelude - element access, sub-objects, value ranges - stay).
// dropped=false when there is nothing to drop.
func groundQuery(prelude string, ob *Obligation, goal Term) (string, bool) {
	var sb strings.Builder
	sb.WriteString("; obligation " + ob.Name + " in " + ob.Fn + " (quantifier-free part of the path condition)\n")
	sb.WriteString(prelude)
	seen := map[string]bool{}
	dropped := false
	for _, p := range ob.PC {
		if seen[p.S] {
			continue
		}
		seen[p.S] = true
		if strings.Contains(p.S, "(forall ") || strings.Contains(p.S, "(exists ") {
			dropped = true
			continue
		}
		sb.WriteString("(assert ")
		sb.WriteString(p.S)
		sb.WriteString(")\n")
	}
	sb.WriteString("(assert (not " + goal.S + "))\n(check-sat)\n")
	return sb.String(), dropped
}

func buildQueryGoal(prelude string, ob *Obligation, goal Term) string {
	var sb strings.Builder
	sb.WriteString("; obligation " + ob.Name + " in " + ob.Fn + "\n")
	sb.WriteString(prelude)
	seen := map[string]bool{}
	for _, p := range ob.PC {
		if seen[p.S] {
			continue
		}
		seen[p.S] = true
		sb.WriteString("(assert ")
		sb.WriteString(p.S)
		sb.WriteString(")\n")
	}
	sb.WriteString("(assert (not " + goal.S + "))\n(check-sat)\n")
	return sb.String()
}

func buildQuery(e *Enc, prelude string, ob *Obligation) string {
	var sb strings.Builder
	sb.WriteString("; obligation " + ob.Name + " in " + ob.Fn + "\n")
	if ob.Src != "" {
		sb.WriteString("; " + strings.ReplaceAll(ob.Src, "\n", " ") + "\n")
	}
	sb.WriteString(prelude)
	seen := map[string]bool{}
	for _, p := range ob.PC {
		if seen[p.S] {
			continue
		}
		seen[p.S] = true
		sb.WriteString("(assert ")
		sb.WriteString(p.S)
		sb.WriteString(")\n")
	}
	if ob.Cover {
		sb.WriteString("(assert " + ob.Goal.S + ")\n")
	} else {
		sb.WriteString("(assert (not " + ob.Goal.S + "))\n")
	}
	sb.WriteString("(check-sat)\n")
	return sb.String()
}

type solverCfg struct {
	name string
	args func(file string, timeout int) []string
	pre  string
}

var solvers = map[string]solverCfg{
	"z3-new": {name: "z3-new", args: func(f string, t int) []string { return []string{fmt.Sprintf("-T:%d", t), f} }},
	"z3":     {name: "z3", args: func(f string, t int) []string { return []string{fmt.Sprintf("-T:%d", t), f} }},
	"cvc5":   {name: "cvc5", args: func(f string, t int) []string { return []string{fmt.Sprintf("--tlimit=%d", t*1000), "--lang=smt2", f} }, pre: "(set-logic ALL)\n"},
}

func runSolver(cfg solverCfg, query string, dir, base string, timeout int, wantModel bool) *SolveResult {
	return runSolverCtx(context.Background(), cfg, query, dir, base, timeout, wantModel)
}

func runSolverCtx(parent context.Context, cfg solverCfg, query string, dir, base string, timeout int, wantModel bool) *SolveResult {
	file := filepath.Join(dir, base+"."+cfg.name+".smt2")
	q := query
	if cfg.name == "cvc5" {
		q = "(set-option :produce-models true)\n" + cfg.pre + q
	}
	if wantModel {
		q += "(get-model)\n"
	}
	if err := os.WriteFile(file, []byte(q), 0o644); err != nil {
		return &SolveResult{Status: "error", Output: err.Error()}
	}
	ctx, cancel := context.WithTimeout(parent, time.Duration(timeout+5)*time.Second)
	defer cancel()
	cmd := exec.CommandContext(ctx, cfg.name, cfg.args(file, timeout)...)
	var out bytes.Buffer
	cmd.Stdout = &out
	cmd.Stderr = &out
	t0 := time.Now()
	_ = cmd.Run()
	el := time.Since(t0).Seconds()
	txt := out.String()
	first := strings.TrimSpace(strings.SplitN(txt, "\n", 2)[0])
	r := &SolveResult{Solver: cfg.name, Seconds: el, File: file, Output: truncate(txt, 4000)}
	switch first {
	case "unsat":
		r.Status = "unsat"
	case "sat":
		r.Status = "sat"
		if i := strings.Index(txt, "\n"); i >= 0 {
			r.Model = truncate(txt[i+1:], 60000)
		}
	case "unknown":
		r.Status = "unknown"
	case "timeout":
		r.Status = "timeout"
	default:
		if ctx.Err() != nil || strings.Contains(txt, "timeout") || strings.Contains(txt, "interrupted") {
			r.Status = "timeout"
		} else {
			r.Status = "error"
		}
	}
	return r
}

func truncate(s string, n int) string {
	if len(s) > n {
		return s[:n] + "...[truncated]"
	}
	return s
}

type SolveOpts struct {
	Dir      string
	Timeout  int
	Portfolio []string
	Jobs     int
	NoLead   bool
	NoGround bool
	NoRetry  bool
	// SkipRetry names obligations a retry is pointless for (recorded known findings)
	SkipRetry func(fn, ob string) bool
	Kinds    map[string]bool // nil = all obligation kinds
	Props    map[string]bool // the properties being checked (clause-level tags)
	// CrossCheck (thorough tier): every discharged obligation is put to a second, different
	// solver; its verdict is recorded (Confirm) and a contradiction (sat against unsat) is a failure.
	CrossCheck bool
}

// discharge runs the solver portfolio on every obligation of the results, in parallel.
func discharge(results []*FuncResult, opts SolveOpts) {
	type job struct {
		ob      *Obligation
		prelude string
		query   string
		base    string
		fn      string
	}
	var jobs []job
	n := 0
	for _, fr := range results {
		if len(fr.Obs) == 0 || fr.Enc == nil {
			continue // nothing to do, or decided by another back end (constant evaluation)
		}
		var prelude string
		func() {
			defer func() {
				if r := recover(); r != nil {
					if se, ok := r.(specErr); ok {
						fr.Errs = append(fr.Errs, "spec definition error: "+string(se))
						return
					}
					panic(r)
				}
			}()
			prelude = fr.Enc.prelude()
		}()
		for _, ob := range fr.Obs {
			if len(ob.ClauseProps) > 0 && len(opts.Props) > 0 {
				// a clause tagged "[Cxx]" is checked under those properties only - and under them
				// whatever the kind filter says
				mine := false
				for _, cp := range ob.ClauseProps {
					if opts.Props[cp] {
						mine = true
					}
				}
				if !mine {
					ob.Skipped = true
					ob.Result = &SolveResult{Status: "skipped", Solver: "skipped"}
					continue
				}
			} else if opts.Kinds != nil && !ob.Cover && !opts.Kinds[ob.Kind] {
				// this obligation belongs to another property's check
				ob.Skipped = true
				ob.Result = &SolveResult{Status: "skipped", Solver: "skipped"}
				continue
			}
			if !ob.Cover && ob.Goal.S == "true" {
				ob.Result = &SolveResult{Status: "unsat", Solver: "trivial"}
				continue
			}
			if !ob.Cover && goalInPC(ob) {
				ob.Result = &SolveResult{Status: "unsat", Solver: "syntactic"}
				continue
			}
			n++
			jobs = append(jobs, job{ob: ob, prelude: prelude, query: buildQuery(fr.Enc, prelude, ob), base: fmt.Sprintf("q%04d_%s", n, sanitize(shortName(fr.Fn)+"_"+ob.Name)), fn: fr.Fn})
		}
	}
	var wg sync.WaitGroup
	sem := make(chan struct{}, opts.Jobs)
	for _, j := range jobs {
		wg.Add(1)
		sem <- struct{}{}
		go func(j job) {
			defer wg.Done()
			defer func() { <-sem }()
			j.ob.Result = solveOb(j.ob, j.prelude, j.query, j.base, opts)
		}(j)
	}
	wg.Wait()
	// second chance: an obligation that no solver decided in time (timeout/unknown, never a
	// "sat") is tried once more, alone on the machine's cores and with three times the time -
	// sixteen solvers running side by side slow each other down severalfold, and a proof that
	// needs 6 s alone must not become an alarm because the machine was busy. A retry that
	// succeeds is recorded as such in the evidence.
	if !opts.NoRetry {
		var undecided []job
		for _, j := range jobs {
			r := j.ob.Result
			if j.ob.Cover || r == nil || r.Status == "unsat" || r.Status == "sat" || r.Status == "skipped" {
				continue
			}
			if opts.SkipRetry != nil && opts.SkipRetry(j.fn, j.ob.Name) {
				continue
			}
			undecided = append(undecided, j)
		}
		if len(undecided) > 6 {
			undecided = nil // many undecided obligations are not a load problem
		}
		for _, j := range undecided {
			r := j.ob.Result
			o2 := opts
			o2.Timeout = opts.Timeout * 3
			o2.NoRetry = true
			o2.NoGround = true
			r2 := solveOb(j.ob, j.prelude, j.query, j.base+".retry", o2)
			if r2.Status == "unsat" {
				r2.Solver += "(retry)"
				r2.Tried = append(append([]string{}, r.Tried...), r2.Tried...)
				j.ob.Result = r2
			}
		}
	}
}

// solveOb: try the whole goal quickly; if that is not decided and the goal is a conjunction,
// discharge the conjuncts one by one (valid iff every conjunct is valid).
func solveOb(ob *Obligation, prelude, query, base string, opts SolveOpts) *SolveResult {
	if ob.Cover {
		// vacuity canary: only an "unsat" answer matters (contradictory assumptions); a solver
		// that finds no contradiction within a few seconds is good enough
		r := runSolver(solvers[opts.Portfolio[0]], query, opts.Dir, base, 3, false)
		r.Tried = []string{fmt.Sprintf("%s:%s:%.2fs", opts.Portfolio[0], r.Status, r.Seconds)}
		return r
	}
	if opts.CrossCheck {
		o2 := opts
		o2.CrossCheck = false
		r := solveOb(ob, prelude, query, base, o2)
		if r.Status == "unsat" && r.Solver != "syntactic" && r.Solver != "trivial" {
			other := "cvc5"
			if strings.HasPrefix(r.Solver, "cvc5") {
				other = "z3-new"
			}
			c := runSolver(solvers[other], query, opts.Dir, base+".x", 15, false)
			r.Confirm = other + ":" + c.Status
			if c.Status == "sat" {
				// the solvers contradict each other: not discharged
				r.Status = "unknown"
				r.Output = "solver disagreement: " + r.Solver + " says unsat, " + other + " says sat\n" + c.Output
			}
		}
		return r
	}
	// ground-first: many obligations (infeasible paths, byte-level case analyses) follow from the
	// quantifier-free part of the path condition alone; quantified assumptions (and recursive
	// spec functions feeding them new terms) only distract the solver there. Dropping
	// assumptions is sound for an "unsat" answer, and only that answer is used.
	if gq, dropped := groundQuery(prelude, ob, ob.Goal); dropped && !opts.NoGround {
		g := runSolver(solvers[opts.Portfolio[0]], gq, opts.Dir, base+".g", 2, false)
		if g.Status == "unsat" {
			g.Solver += "(ground)"
			g.Tried = []string{fmt.Sprintf("%s(ground):unsat:%.2fs", opts.Portfolio[0], g.Seconds)}
			return g
		}
	}
	parts := splitAnd(ob.Goal)
	if len(parts) <= 1 {
		return solveOne(query, base, false, opts)
	}
	quick := opts
	if quick.Timeout > 3 {
		quick.Timeout = 3
	}
	r := solveOne(query, base, false, quick)
	if r.Status == "unsat" {
		return r
	}
	total := 0.0
	var tried []string
	for i, p := range parts {
		pr := solveOne(buildQueryGoal(prelude, ob, p), fmt.Sprintf("%s.c%d", base, i), false, opts)
		total += pr.Seconds
		if pr.Status != "unsat" {
			pr.Tried = append(tried, pr.Tried...)
			pr.Part = fmt.Sprintf("conjunct %d/%d: %s", i+1, len(parts), truncate(p.S, 400))
			if len(ob.Parts) == len(parts) {
				pr.Part = ob.Parts[i] + ": " + pr.Part
			}
			return pr
		}
		tried = append(tried, fmt.Sprintf("c%d:%s", i, pr.Solver))
	}
	return &SolveResult{Status: "unsat", Solver: fmt.Sprintf("split(%d)", len(parts)), Seconds: total, Tried: tried}
}

func solveOne(query, base string, cover bool, opts SolveOpts) *SolveResult {
	// race the portfolio: first definite answer (unsat/sat) wins, the others are cancelled
	var tried []string
	var last *SolveResult
	timeout := opts.Timeout
	if cover && timeout > 8 {
		timeout = 8 // vacuity canaries only need "not unsat"
	}
	// cheap first attempt: the lead solver alone for a second (decides the large majority)
	if len(opts.Portfolio) > 1 && !opts.NoLead {
		lead := opts.Portfolio[0]
		if cover {
			lead = "z3" // the older z3 finds models of define-fun-rec goals faster
		}
		lt := 1
		if timeout < lt {
			lt = timeout
		}
		r := runSolver(solvers[lead], query, opts.Dir, base, lt, false)
		tried = append(tried, fmt.Sprintf("%s:%s:%.2fs", lead, r.Status, r.Seconds))
		if r.Status == "unsat" || (r.Status == "sat" && cover) {
			r.Tried = tried
			return r
		}
	}
	ctx, cancel := context.WithCancel(context.Background())
	defer cancel()
	type res struct {
		sn string
		r  *SolveResult
	}
	ch := make(chan res, len(opts.Portfolio))
	for _, sn := range opts.Portfolio {
		go func(sn string) {
			ch <- res{sn, runSolverCtx(ctx, solvers[sn], query, opts.Dir, base, timeout, false)}
		}(sn)
	}
	for range opts.Portfolio {
		x := <-ch
		r := x.r
		tried = append(tried, fmt.Sprintf("%s:%s:%.2fs", x.sn, r.Status, r.Seconds))
		if r.Status == "unsat" {
			r.Tried = tried
			return r
		}
		if r.Status == "sat" {
			cancel()
			if !cover {
				// re-run asking for a model
				m := runSolver(solvers[x.sn], query, opts.Dir, base, opts.Timeout, true)
				if m.Status == "sat" {
					r.Model = m.Model
				}
			}
			r.Tried = tried
			return r
		}
		if last == nil || last.Status == "error" {
			last = r
		}
	}
	if last == nil {
		last = &SolveResult{Status: "error"}
	}
	last.Tried = tried
	return last
}

var modelDefRe = regexp.MustCompile(`\(define-fun ([^ ]+) \(\) Int\s+(\(- \d+\)|\d+)\)`)

// modelInts extracts integer constants from a z3 model.
func modelInts(model string) map[string]string {
	out := map[string]string{}
	for _, m := range modelDefRe.FindAllStringSubmatch(model, -1) {
		v := m[2]
		if strings.HasPrefix(v, "(- ") {
			v = "-" + strings.TrimSuffix(v[3:], ")")
		}
		out[m[1]] = v
	}
	return out
}

func sortedObs(obs []*Obligation) []*Obligation {
	o := append([]*Obligation(nil), obs...)
	sort.SliceStable(o, func(i, j int) bool { return o[i].Name < o[j].Name })
	return o
}
