package main

import (
	"fmt"
	"go/constant"
	"go/types"
	"strings"

	"golang.org/x/tools/go/ssa"
)

var tInt = types.Typ[types.Int]
var tBool = types.Typ[types.Bool]

type Env struct {
	fv      *FuncVerifier
	enc     *Enc
	st      *State
	old     *State
	vars    map[string]Value
	oldVars map[string]Value
	pkg     *types.Package
	nb      *int
	noHeap  bool // inside a spec function body
	specPkg string
	reveal  map[string]bool // opaque predicates expanded in this evaluation
	loopEntry *State        // loop invariants: the state in which the loop was entered (atentry)
	retIdx  int             // postconditions: ordinal of the return site being checked (-1 elsewhere)
}

type specErr string

func (e *Env) fail(f string, a ...any) { panic(specErr(fmt.Sprintf(f, a...))) }

func (e *Env) with(vars map[string]Value) *Env {
	n := *e
	n.vars = map[string]Value{}
	for k, v := range e.vars {
		n.vars[k] = v
	}
	for k, v := range vars {
		n.vars[k] = v
	}
	return &n
}

func intVal(t Term) Value  { return Value{Typ: tInt, L: []Term{t}} }
func boolVal(t Term) Value { return Value{Typ: tBool, L: []Term{t}} }

func (fv *FuncVerifier) evalBool(env *Env, e SExpr) Term {
	v := env.eval(e)
	if len(v.L) != 1 || v.L[0].Sort != SBool {
		env.fail("expected boolean: %s", e.String())
	}
	return v.L[0]
}

func (fv *FuncVerifier) evalInt(env *Env, e SExpr) Term {
	v := env.eval(e)
	if len(v.L) != 1 || v.L[0].Sort != SInt {
		env.fail("expected integer: %s", e.String())
	}
	return v.L[0]
}

func (env *Env) evalB(e SExpr) Term {
	v := env.eval(e)
	if len(v.L) != 1 || v.L[0].Sort != SBool {
		env.fail("expected boolean: %s (got %v)", e.String(), v.L)
	}
	return v.L[0]
}

func (env *Env) evalI(e SExpr) Term {
	v := env.eval(e)
	if len(v.L) != 1 || v.L[0].Sort != SInt {
		env.fail("expected integer: %s", e.String())
	}
	return v.L[0]
}

func (env *Env) eval(e SExpr) Value {
	switch x := e.(type) {
	case *SNum:
		return intVal(IStr(x.Val))
	case *SBoolL:
		return boolVal(B(x.Val))
	case *SIdent:
		return env.ident(x.Name)
	case *SOld:
		if env.old == nil {
			env.fail("old() not allowed here")
		}
		n := *env
		n.st = env.old
		if env.oldVars != nil {
			n.vars = map[string]Value{}
			for k, v := range env.vars {
				n.vars[k] = v
			}
			for k, v := range env.oldVars {
				n.vars[k] = v
			}
		}
		return n.eval(x.X)
	case *SUnary:
		switch x.Op {
		case "!":
			return boolVal(Not(env.evalB(x.X)))
		case "-":
			return intVal(app(SInt, "-", env.evalI(x.X)))
		}
	case *SBinary:
		return env.binary(x)
	case *SCond:
		c := env.evalB(x.C)
		a := env.eval(x.A)
		b := env.eval(x.B)
		if len(a.L) != len(b.L) {
			env.fail("conditional branches differ: %s", e.String())
		}
		r := Value{Typ: a.Typ, SpecSl: a.SpecSl}
		for i := range a.L {
			r.L = append(r.L, Ite(c, a.L[i], b.L[i]))
		}
		return r
	case *SField:
		return env.field(x)
	case *SIndex:
		return env.index(x)
	case *SSlice:
		return env.slice(x)
	case *SCall:
		return env.call(x)
	case *SQuant:
		names := map[string]Value{}
		var bound []string
		for _, v := range x.Vars {
			*env.nb++
			bn := fmt.Sprintf("%s!b%d", v, *env.nb)
			bound = append(bound, bn)
			names[v] = intVal(Term{bn, SInt})
		}
		body := env.with(names).evalB(x.Body)
		if x.Forall {
			return boolVal(Forall(bound, body))
		}
		return boolVal(Exists(bound, body))
	}
	env.fail("cannot evaluate %s", e.String())
	return Value{}
}

func (env *Env) ident(name string) Value {
	if v, ok := env.vars[name]; ok {
		return v
	}
	if name == "nil" {
		return Value{Typ: types.Typ[types.UntypedNil], L: []Term{I(0)}, Nil: true}
	}
	// package-level constant or variable
	if env.pkg != nil {
		if obj := env.pkg.Scope().Lookup(name); obj != nil {
			switch o := obj.(type) {
			case *types.Const:
				if o.Val().Kind() == constant.Int {
					return Value{Typ: o.Type(), L: []Term{IStr(o.Val().ExactString())}}
				}
				if o.Val().Kind() == constant.Bool {
					return boolVal(B(constant.BoolVal(o.Val())))
				}
			case *types.Var:
				if env.noHeap {
					env.fail("global %s not allowed in spec function", name)
				}
				if env.fv != nil {
					sp := env.enc.prog.Package(env.pkg)
					if g, ok := sp.Members[name].(*ssa.Global); ok {
						gv := env.st.get(g)
						if gv.Place != nil {
							return env.st.load(gv.Place)
						}
						return gv
					}
				}
			}
		}
	}
	// a parameter, captured variable or local that was renamed since the contracts were written
	// (names.go): the variable now standing in its place
	for _, now := range renamedTo[name] {
		if v, ok := env.vars[now]; ok {
			return v
		}
	}
	env.fail("unknown identifier %q", name)
	return Value{}
}

func derefType(t types.Type) (types.Type, bool) {
	if p, ok := t.Underlying().(*types.Pointer); ok {
		return p.Elem(), true
	}
	return t, false
}

func (env *Env) field(x *SField) Value {
	// package-qualified constant? (e.g. length.Runes) -- handled as ident "length.Runes" lookup
	if id, ok := x.X.(*SIdent); ok {
		if _, isVar := env.vars[id.Name]; !isVar && env.pkg != nil {
			for _, imp := range env.pkg.Imports() {
				if imp.Name() == id.Name {
					if obj := imp.Scope().Lookup(x.Name); obj != nil {
						if c, ok := obj.(*types.Const); ok && c.Val().Kind() == constant.Int {
							return Value{Typ: c.Type(), L: []Term{IStr(c.Val().ExactString())}}
						}
						// exported package-level variable of an imported package
						if _, ok := obj.(*types.Var); ok && env.fv != nil && !env.noHeap {
							if sp := env.enc.prog.Package(imp); sp != nil {
								if g, ok := sp.Members[x.Name].(*ssa.Global); ok {
									gv := env.st.get(g)
									if gv.Place != nil {
										return env.st.load(gv.Place)
									}
									return gv
								}
							}
						}
					}
					env.fail("cannot resolve %s.%s", id.Name, x.Name)
				}
			}
		}
	}
	base := env.eval(x.X)
	t, isPtr := derefType(base.Typ)
	st, ok := t.Underlying().(*types.Struct)
	if !ok {
		env.fail("field access on non-struct %s (%v)", x.X.String(), base.Typ)
	}
	idx := -1
	for i := 0; i < st.NumFields(); i++ {
		if st.Field(i).Name() == x.Name {
			idx = i
		}
	}
	if idx < 0 {
		// promoted fields through embedded structs
		for i := 0; i < st.NumFields(); i++ {
			if st.Field(i).Embedded() {
				inner := &SField{&SField{x.X, st.Field(i).Name()}, x.Name}
				if _, ok2 := derefStruct(st.Field(i).Type()); ok2 {
					if hasField(st.Field(i).Type(), x.Name) {
						return env.field(inner)
					}
				}
			}
		}
		env.fail("no field %s in %v", x.Name, t)
	}
	if isPtr {
		if env.noHeap {
			env.fail("heap access in spec function: %s", x.String())
		}
		var p *Place
		if base.Place != nil {
			p = base.Place
		} else {
			p = env.st.placeOfRef(base.L[0], t)
		}
		return env.loadNoAssume(p.field(idx))
	}
	lo, hi := fieldRange(st, idx)
	return Value{Typ: st.Field(idx).Type(), L: base.L[lo:hi]}
}

func derefStruct(t types.Type) (*types.Struct, bool) {
	if p, ok := t.Underlying().(*types.Pointer); ok {
		t = p.Elem()
	}
	s, ok := t.Underlying().(*types.Struct)
	return s, ok
}

func hasField(t types.Type, name string) bool {
	s, ok := derefStruct(t)
	if !ok {
		return false
	}
	for i := 0; i < s.NumFields(); i++ {
		if s.Field(i).Name() == name {
			return true
		}
	}
	return false
}

// loadNoAssume reads a place without adding well-typedness facts to the path condition
// (specification evaluation must not change the state).
func (env *Env) loadNoAssume(p *Place) Value {
	s := env.st
	p = s.resolve(p)
	ls := flatten(p.Typ)
	v := Value{Typ: p.Typ}
	switch p.Kind {
	case PLocal:
		cv := s.cells[p.Cell]
		v.L = append(v.L, cv.L[p.Lo:p.Lo+len(ls)]...)
	case PHeap:
		for _, l := range ls {
			a := s.heapArr(p.Prefix+l.Suffix, arrSort(l.Sort))
			v.L = append(v.L, Select(a, p.Obj))
		}
	case PElem:
		for _, l := range ls {
			a := s.heapArr(p.Prefix+l.Suffix, arrSort(arrSort(l.Sort)))
			v.L = append(v.L, env.enc.elemAt(Select(a, p.Arr), p.Off, p.Idx))
		}
	case PGlobal:
		for _, l := range ls {
			v.L = append(v.L, s.heapArr(p.Prefix+l.Suffix, l.Sort))
		}
	}
	return v
}

func (env *Env) index(x *SIndex) Value {
	base := env.eval(x.X)
	i := env.evalI(x.I)
	if len(base.L) == 1 && base.L[0].Sort == SArr && !base.SpecSl {
		// ghost map (intmap)
		return intVal(Select(base.L[0], i))
	}
	if base.SpecSl {
		et := base.Typ.Underlying().(*types.Slice).Elem()
		return Value{Typ: et, L: []Term{env.enc.elemAt(base.L[0], base.L[1], i)}}
	}
	switch u := base.Typ.Underlying().(type) {
	case *types.Slice:
		if env.noHeap {
			env.fail("heap slice in spec function")
		}
		env.enc.registerRefLeaves("E_"+typeKey(u.Elem()), u.Elem(), 2)
		p := &Place{Kind: PElem, Typ: u.Elem(), Prefix: "E_" + typeKey(u.Elem()), Arr: base.L[0], Off: base.L[1], Idx: i}
		return env.loadNoAssume(p)
	case *types.Basic:
		if u.Info()&types.IsString != 0 {
			env.enc.declareFun("sbyte", []string{"Int", "Int"}, "Int")
			return Value{Typ: types.Typ[types.Uint8], L: []Term{env.enc.strAt(base.L[0], base.L[1], i)}}
		}
	case *types.Pointer:
		if at, ok := u.Elem().Underlying().(*types.Array); ok {
			p := &Place{Kind: PElem, Typ: at.Elem(), Prefix: "E_" + typeKey(at.Elem()), Arr: base.L[0], Off: I(0), Idx: i}
			return env.loadNoAssume(p)
		}
	}
	env.fail("cannot index %s of type %v", x.X.String(), base.Typ)
	return Value{}
}

func (env *Env) slice(x *SSlice) Value {
	base := env.eval(x.X)
	lo := I(0)
	if x.Lo != nil {
		lo = env.evalI(x.Lo)
	}
	if base.SpecSl {
		hi := base.L[2]
		if x.Hi != nil {
			hi = env.evalI(x.Hi)
		}
		return Value{Typ: base.Typ, SpecSl: true, L: []Term{base.L[0], Add(base.L[1], lo), Sub(hi, lo)}}
	}
	switch base.Typ.Underlying().(type) {
	case *types.Slice:
		hi := base.L[2]
		if x.Hi != nil {
			hi = env.evalI(x.Hi)
		}
		return Value{Typ: base.Typ, L: []Term{base.L[0], Add(base.L[1], lo), Sub(hi, lo), Sub(base.L[3], lo)}}
	case *types.Basic:
		hi := base.L[2]
		if x.Hi != nil {
			hi = env.evalI(x.Hi)
		}
		return Value{Typ: base.Typ, L: []Term{base.L[0], Add(base.L[1], lo), Sub(hi, lo)}}
	}
	env.fail("cannot slice %s", x.X.String())
	return Value{}
}

func (env *Env) binary(x *SBinary) Value {
	switch x.Op {
	case "&&":
		a := env.evalB(x.X)
		if a.S == "false" {
			return boolVal(FalseT) // short-circuit (the right side may mention unbound locals)
		}
		return boolVal(And(a, env.evalB(x.Y)))
	case "||":
		return boolVal(Or(env.evalB(x.X), env.evalB(x.Y)))
	case "==>":
		a := env.evalB(x.X)
		if a.S == "false" {
			return boolVal(TrueT)
		}
		return boolVal(Implies(a, env.evalB(x.Y)))
	case "<==>":
		return boolVal(Eq(env.evalB(x.X), env.evalB(x.Y)))
	case "==", "!=":
		a := env.eval(x.X)
		b := env.eval(x.Y)
		var eq Term
		switch {
		case a.Nil || b.Nil:
			o := a
			if a.Nil {
				o = b
			}
			if o.Place != nil {
				eq = FalseT // address of a local object is never nil
			} else {
				eq = Eq(o.L[0], I(0))
			}
		case len(a.L) == len(b.L):
			var cs []Term
			for i := range a.L {
				if a.L[i].Sort != b.L[i].Sort {
					env.fail("sort mismatch in %s", x.String())
				}
				cs = append(cs, Eq(a.L[i], b.L[i]))
			}
			eq = And(cs...)
		default:
			env.fail("cannot compare %s", x.String())
		}
		if x.Op == "!=" {
			return boolVal(Not(eq))
		}
		return boolVal(eq)
	}
	a := env.evalI(x.X)
	b := env.evalI(x.Y)
	switch x.Op {
	case "<":
		return boolVal(Lt(a, b))
	case "<=":
		return boolVal(Le(a, b))
	case ">":
		return boolVal(Gt(a, b))
	case ">=":
		return boolVal(Ge(a, b))
	case "+":
		return intVal(Add(a, b))
	case "-":
		return intVal(Sub(a, b))
	case "*":
		return intVal(Mul(a, b))
	case "/":
		return intVal(app(SInt, "div", a, b))
	case "%":
		return intVal(app(SInt, "mod", a, b))
	case "<<":
		if k, ok := constInt(b); ok {
			return intVal(Mul(a, IStr(pow2(int(k)))))
		}
	case ">>":
		if k, ok := constInt(b); ok {
			return intVal(app(SInt, "div", a, IStr(pow2(int(k)))))
		}
	case "&":
		if k, ok := constInt(b); ok {
			for n := 1; n < 63; n++ {
				if k == (int64(1)<<n)-1 {
					return intVal(app(SInt, "mod", a, IStr(pow2(n))))
				}
			}
		}
	}
	env.fail("unsupported operator %s in %s", x.Op, x.String())
	return Value{}
}

// toSpecSlice converts a heap slice value into a spec-level slice (contents, off, len).
func (env *Env) toSpecSlice(v Value) Value {
	if v.SpecSl {
		return v
	}
	sl, ok := v.Typ.Underlying().(*types.Slice)
	if !ok {
		env.fail("expected slice, got %v", v.Typ)
	}
	ls := flatten(sl.Elem())
	if len(ls) != 1 {
		env.fail("spec slices need scalar elements (got %v)", sl.Elem())
	}
	if env.noHeap {
		env.fail("heap slice in spec function")
	}
	a := env.st.heapArr("E_"+typeKey(sl.Elem()), arrSort(arrSort(ls[0].Sort)))
	return Value{Typ: v.Typ, SpecSl: true, L: []Term{Select(a, v.L[0]), v.L[1], v.L[2]}}
}

func (env *Env) call(x *SCall) Value {
	switch x.Fn {
	case "len":
		v := env.eval(x.Args[0])
		if v.SpecSl || isString(v.Typ) {
			return intVal(v.L[2])
		}
		if _, ok := v.Typ.Underlying().(*types.Slice); ok {
			return intVal(v.L[2])
		}
		env.fail("len of %v", v.Typ)
	case "cap":
		v := env.eval(x.Args[0])
		if _, ok := v.Typ.Underlying().(*types.Slice); ok && !v.SpecSl {
			return intVal(v.L[3])
		}
		env.fail("cap of %v", v.Typ)
	case "int", "byte", "rune":
		return intVal(env.evalI(x.Args[0]))
	case "fresh":
		// fresh(p): p was allocated after the old state
		v := env.eval(x.Args[0])
		if env.old == nil {
			env.fail("fresh() needs a two-state context")
		}
		if v.Place != nil && v.Place.Kind == PLocal {
			// object allocated by this function and not yet published: fresh by construction
			return boolVal(TrueT)
		}
		return boolVal(And(Ge(v.L[0], env.old.hwm), Lt(v.L[0], env.st.hwm)))
	case "allocated":
		v := env.eval(x.Args[0])
		return boolVal(And(Gt(v.L[0], I(0)), Lt(v.L[0], env.st.hwm)))
	case "mapHas":
		// mapHas(m, k): the map m currently holds an entry for the abstract key k (an int: an
		// integer key itself, skey(s) of a string key, or a spec function naming it)
		mv := env.eval(x.Args[0])
		if _, isMap := mv.Typ.Underlying().(*types.Map); !isMap {
			env.fail("mapHas: map expected, got %v", mv.Typ)
		}
		k := env.evalI(x.Args[1])
		ver := Select(env.st.heapArr("M_content", SArr), mv.L[0])
		return boolVal(env.st.mhas(ver, k))
	case "mapNonNil", "mapSame":
		// mapNonNil(m, k): the entry of m under the abstract key k is a non-nil pointer/interface
		// (false when there is no entry); mapSame(m1, k1, m2, k2): the two entries hold the same
		// value (all modelled words equal; both absent counts as the same)
		mv := env.eval(x.Args[0])
		mt, isMap := mv.Typ.Underlying().(*types.Map)
		if !isMap {
			env.fail("%s: map expected, got %v", x.Fn, mv.Typ)
		}
		k := env.evalI(x.Args[1])
		ver := Select(env.st.heapArr("M_content", SArr), mv.L[0])
		word := func(ver, k Term, i int) Term {
			// an absent key reads as zero
			return Ite(env.st.mhas(ver, k), env.st.mval(ver, k, i), I(0))
		}
		if x.Fn == "mapNonNil" {
			return boolVal(Not(Eq(word(ver, k, 0), I(0))))
		}
		mv2 := env.eval(x.Args[2])
		k2 := env.evalI(x.Args[3])
		ver2 := Select(env.st.heapArr("M_content", SArr), mv2.L[0])
		var cs []Term
		for i, l := range flatten(mt.Elem()) {
			if l.Sort == SInt {
				cs = append(cs, Eq(word(ver, k, i), word(ver2, k2, i)))
			}
		}
		return boolVal(And(cs...))
	case "mapUnchanged":
		// mapUnchanged(m): the content of map m is what it was in the old state
		if env.old == nil {
			env.fail("mapUnchanged() needs a two-state context")
		}
		mv := env.eval(x.Args[0])
		if _, isMap := mv.Typ.Underlying().(*types.Map); !isMap {
			env.fail("mapUnchanged: map expected")
		}
		return boolVal(And(
			Eq(Select(env.st.heapArr("M_content", SArr), mv.L[0]), Select(env.old.heapArr("M_content", SArr), mv.L[0])),
			Eq(env.st.heapArr("GH_mepoch", SInt), env.old.heapArr("GH_mepoch", SInt))))
	case "ikeyAs":
		// ikeyAs(x, T): the key of x wrapped in the one-field struct type T (a marker type that
		// gives the same message a second key)
		v := env.eval(x.Args[0])
		if v.Place != nil || len(v.L) != 1 {
			env.fail("ikeyAs: pointer expected")
		}
		t := env.resolveType(typeExprString(x.Args[1]))
		env.enc.declareFun("ikey", []string{"Int", "Int"}, "Int")
		return intVal(app(SInt, "ikey", env.enc.typeID(t), v.L[0]))
	case "atentry":
		// atentry(E): E read in the heap as it was when the loop was entered (loop invariants)
		if env.loopEntry == nil {
			env.fail("atentry() is only available in loop invariants")
		}
		n := *env
		n.st = env.loopEntry
		return n.eval(x.Args[0])
	case "skey":
		sv := env.eval(x.Args[0])
		k, ok := env.enc.mapKey(sv)
		if !ok {
			env.fail("skey: string (or integer) expected")
		}
		return intVal(k)
	case "ikey":
		// ikey(x): the abstract key under which x - an interface value, or a pointer that the code
		// converts to an interface - is found in a map with interface-typed keys
		v := env.eval(x.Args[0])
		if v.Place != nil && v.Place.Kind == PLocal {
			// a pointer to an object of this function: its heap reference if it has one; an
			// object that never left the function has no reference anybody could have used as a
			// key (an unconstrained one stands for it; evaluation must not change the state)
			if _, done := env.st.promoted[v.Place.Cell]; done {
				v = env.st.promote(v)
			} else {
				v = Value{Typ: v.Typ, L: []Term{env.enc.fresh("unpublished", SInt)}}
			}
		}
		if _, isPtr := v.Typ.Underlying().(*types.Pointer); isPtr && len(v.L) == 1 {
			v = Value{Typ: types.NewInterfaceType(nil, nil), L: []Term{env.enc.typeID(v.Typ), v.L[0]}}
		}
		k, ok := env.enc.mapKey(v)
		if !ok || len(v.L) != 2 {
			env.fail("ikey: interface value or pointer expected")
		}
		return intVal(k)
	case "nobyte":
		// nobyte(s, c, a, b): byte c does not occur in s[a:b). Stated over absolute positions of
		// the underlying bytes, so that the fact carries over between a string and its substrings.
		sv := env.eval(x.Args[0])
		if !isString(sv.Typ) {
			env.fail("nobyte: string expected")
		}
		c := env.evalI(x.Args[1])
		a := env.evalI(x.Args[2])
		b := env.evalI(x.Args[3])
		env.enc.declareFun("sbyte", []string{"Int", "Int"}, "Int")
		*env.nb++
		jn := fmt.Sprintf("j!b%d", *env.nb)
		j := Term{jn, SInt}
		body := Implies(And(Le(Add(sv.L[1], a), j), Lt(j, Add(sv.L[1], b))), Not(Eq(app(SInt, "sbyte", sv.L[0], j), c)))
		return boolVal(Term{"(forall ((" + jn + " Int)) (! " + body.S + " :pattern ((sbyte " + sv.L[0].S + " " + jn + "))))", SBool})
	case "rwl", "runeatl":
		// rwl(s, p, q): the number of bytes the runtime's UTF-8 decoder consumes at position p of
		// string s when decoding s[p:q] (what a range loop over s[..:q] does at p); runeatl: the
		// rune it yields. Uninterpreted; constrained by the facts assumed at ssa.Next.
		s := env.eval(x.Args[0])
		if !isString(s.Typ) {
			env.fail("%s: string expected", x.Fn)
		}
		pp := env.evalI(x.Args[1])
		q := env.evalI(x.Args[2])
		env.enc.declareFun("rw", []string{"Int", "Int", "Int"}, "Int")
		env.enc.declareFun("runeat", []string{"Int", "Int", "Int"}, "Int")
		env.enc.utf8RangeAxioms()
		fn := "rw"
		if x.Fn == "runeatl" {
			fn = "runeat"
		}
		return intVal(app(SInt, fn, s.L[0], Add(s.L[1], pp), Add(s.L[1], q)))
	case "sameSlice":
		a := env.eval(x.Args[0])
		b := env.eval(x.Args[1])
		return boolVal(And(Eq(a.L[0], b.L[0]), Eq(a.L[1], b.L[1]), Eq(a.L[2], b.L[2])))
	case "sameArray":
		a := env.eval(x.Args[0])
		b := env.eval(x.Args[1])
		return boolVal(Eq(a.L[0], b.L[0]))
	case "arr":
		a := env.eval(x.Args[0])
		return intVal(a.L[0])
	case "off":
		a := env.eval(x.Args[0])
		return intVal(a.L[1])
	case "typeIs":
		// typeIs(ifaceExpr, TypeName)
		a := env.eval(x.Args[0])
		t := env.resolveType(strings.ReplaceAll(typeExprString(x.Args[1]), " ", ""))
		return boolVal(Eq(a.L[0], env.enc.typeID(t)))
	case "cast":
		// cast(ifaceExpr, *T): the dynamic value viewed as *T (meaningful only under typeIs)
		a := env.eval(x.Args[0])
		t := env.resolveType(strings.ReplaceAll(typeExprString(x.Args[1]), " ", ""))
		if _, isIface := a.Typ.Underlying().(*types.Interface); !isIface || len(flatten(t)) != 1 {
			env.fail("cast: need interface value and single-word target type")
		}
		return Value{Typ: t, L: []Term{a.L[1]}}
	case "asIface":
		a := env.eval(x.Args[0])
		if len(a.L) != 1 {
			env.fail("asIface: need single-word value")
		}
		if a.Place != nil {
			env.fail("asIface: local address")
		}
		return Value{Typ: types.NewInterfaceType(nil, nil), L: []Term{env.enc.typeID(a.Typ), a.L[0]}}
	case "atret":
		// atret(k): this postcondition is being checked at return site k (source order)
		k, ok := constInt(env.evalI(x.Args[0]))
		if !ok {
			env.fail("atret: constant expected")
		}
		return boolVal(B(env.retIdx == int(k)))
	case "ifval":
		// ifval(i): the dynamic value (reference) held by the interface value i
		a := env.eval(x.Args[0])
		if len(a.L) != 2 {
			env.fail("ifval: interface value expected")
		}
		return intVal(a.L[1])
	case "isnil":
		a := env.eval(x.Args[0])
		return boolVal(Eq(a.L[0], I(0)))
	case "typednil":
		// typednil(i): the interface value i is not nil but wraps a nil pointer
		a := env.eval(x.Args[0])
		if len(a.L) < 2 {
			env.fail("typednil: interface value expected")
		}
		return boolVal(And(Not(Eq(a.L[0], I(0))), Eq(a.L[1], I(0))))
	case "implements":
		// implements(ifaceValue, InterfaceType): the comma-ok type assertion would succeed
		a := env.eval(x.Args[0])
		t := env.resolveType(strings.ReplaceAll(typeExprString(x.Args[1]), " ", ""))
		fn := env.enc.implPred(t)
		return boolVal(And(Not(Eq(a.L[0], I(0))), app(SBool, fn, a.L[0])))
	case "bound":
		// bound(x): the local variable x exists at this program point
		id, ok := x.Args[0].(*SIdent)
		if !ok {
			env.fail("bound: identifier expected")
		}
		_, has := env.vars[id.Name]
		return boolVal(B(has))
	case "held", "wheld", "rheld", "unheld", "done", "oncewf":
		return env.lockPred(x)
	case "unchanged":
		return env.unchanged(x)
	case "nondecreasing":
		// nondecreasing(Type.field): on every object that existed before, a bool field that was
		// set is still set / an integer field has not become smaller
		if env.old == nil {
			env.fail("nondecreasing() needs a two-state context")
		}
		tf := typeExprString(x.Args[0])
		i := strings.LastIndex(tf, ".")
		if i < 0 {
			env.fail("nondecreasing: Type.field expected")
		}
		t := env.resolveType(tf[:i])
		stt, ok := t.Underlying().(*types.Struct)
		if !ok {
			env.fail("nondecreasing: %s is not a struct type", tf[:i])
		}
		var ft types.Type
		for k := 0; k < stt.NumFields(); k++ {
			if stt.Field(k).Name() == tf[i+1:] {
				ft = stt.Field(k).Type()
			}
		}
		if ft == nil {
			env.fail("nondecreasing: field %s not found", tf)
		}
		ls := flatten(ft)
		if len(ls) != 1 || (ls[0].Sort != SBool && ls[0].Sort != SInt) {
			env.fail("nondecreasing: %s is not a bool or integer field", tf)
		}
		name := "H_" + typeKey(t) + "." + tf[i+1:] + ls[0].Suffix
		env.enc.registerRefLeaves("H_"+typeKey(t), t, 1)
		cur := env.st.heapArr(name, arrSort(ls[0].Sort))
		old := env.old.heapArr(name, arrSort(ls[0].Sort))
		if cur.S == old.S {
			return boolVal(TrueT)
		}
		r := Term{"r!u", SInt}
		var rel Term
		if ls[0].Sort == SBool {
			rel = Implies(Select(old, r), Select(cur, r))
		} else {
			rel = Le(Select(old, r), Select(cur, r))
		}
		// (no lower bound: a pointer may name a sub-object, and those have negative references)
		return boolVal(Forall([]string{"r!u"}, Implies(Lt(r, env.old.hwm), rel)))
	case "ghost":
		id := x.Args[0].(*SIdent)
		return intVal(env.st.heapArr("GH_"+id.Name, SInt))
	case "fieldmap":
		// fieldmap(Type.field) / fieldmap(Type.field, leaf): the current heap array of a
		// single-word field (for recursive spec functions over linked structures)
		tf := typeExprString(x.Args[0])
		i := strings.LastIndex(tf, ".")
		if i < 0 {
			env.fail("fieldmap: Type.field expected")
		}
		t := env.resolveType(tf[:i])
		name := "H_" + typeKey(t) + "." + tf[i+1:]
		if len(x.Args) > 1 {
			name += "." + x.Args[1].(*SIdent).Name
		}
		env.enc.registerRefLeaves("H_"+typeKey(t), t, 1)
		return Value{Typ: tInt, L: []Term{env.st.heapArr(name, SArr)}}
	}
	if sf, ok := env.enc.db.Specs[x.Fn]; ok {
		return env.callSpec(sf, x)
	}
	if pd, ok := env.enc.db.Preds[x.Fn]; ok {
		if len(pd.Params) != len(x.Args) {
			env.fail("pred %s: arity mismatch", pd.Name)
		}
		if pd.Opaque && !env.reveal[pd.Name] {
			// an uninterpreted atom over the (heap-independent) arguments
			var args []Term
			var sorts []string
			for i, p := range pd.Params {
				ts := env.specArg(p, env.eval(x.Args[i]))
				args = append(args, ts...)
				for _, l := range specParamLeaves(p.Type) {
					sorts = append(sorts, l.Sort)
				}
			}
			env.enc.declareFun("P_"+pd.Name, sorts, "Bool")
			return boolVal(app(SBool, "P_"+pd.Name, args...))
		}
		vars := map[string]Value{}
		for i, p := range pd.Params {
			vars[p.Name] = env.eval(x.Args[i])
		}
		n := *env
		n.vars = vars
		// predicates resolve names in their own package
		if pkg := env.enc.pkgByPath(pd.Pkg); pkg != nil {
			n.pkg = pkg
		}
		n.oldVars = nil
		return n.eval(pd.Body)
	}
	env.fail("unknown function %s", x.Fn)
	return Value{}
}

func typeExprString(e SExpr) string {
	switch x := e.(type) {
	case *SUnary:
		if x.Op == "*" {
			return "*" + typeExprString(x.X)
		}
	case *SIdent:
		return x.Name
	case *SField:
		return typeExprString(x.X) + "." + x.Name
	case *SBinary:
		if x.Op == "*" {
			return typeExprString(x.X) + "*" + typeExprString(x.Y)
		}
	}
	return e.String()
}

func (e *Enc) pkgByPath(path string) *types.Package {
	for _, p := range e.prog.AllPackages() {
		if p.Pkg.Path() == path {
			return p.Pkg
		}
	}
	return nil
}

// specParamSorts flattens a spec-function parameter type to SMT (name-suffix, sort) pairs.
func specParamLeaves(typ string) []Leaf {
	switch typ {
	case "int", "byte", "rune", "ref":
		return []Leaf{{"", SInt, nil}}
	case "bool":
		return []Leaf{{"", SBool, nil}}
	case "[]byte", "[]int", "[]rune":
		return []Leaf{{".a", SArr, nil}, {".off", SInt, nil}, {".len", SInt, nil}}
	case "string":
		return []Leaf{{".id", SInt, nil}, {".off", SInt, nil}, {".len", SInt, nil}}
	case "intmap": // (Array Int Int) ghost sequence
		return []Leaf{{"", SArr, nil}}
	case "iface":
		return []Leaf{{".typ", SInt, nil}, {".val", SInt, nil}}
	}
	panic(specErr("unsupported spec parameter type " + typ))
}

func specGoType(typ string) types.Type {
	switch typ {
	case "int", "ref":
		return tInt
	case "byte":
		return types.Typ[types.Uint8]
	case "rune":
		return types.Typ[types.Int32]
	case "bool":
		return tBool
	case "[]byte":
		return types.NewSlice(types.Typ[types.Uint8])
	case "[]int":
		return types.NewSlice(tInt)
	case "[]rune":
		return types.NewSlice(types.Typ[types.Int32])
	case "string":
		return types.Typ[types.String]
	case "intmap":
		return tInt
	case "iface":
		return types.NewInterfaceType(nil, nil)
	}
	panic(specErr("unsupported spec type " + typ))
}

func (env *Env) specArg(p ParamDecl, v Value) []Term {
	switch p.Type {
	case "[]byte", "[]int", "[]rune":
		sv := env.toSpecSlice(v)
		return sv.L
	case "string":
		if !isString(v.Typ) {
			env.fail("expected string argument for %s", p.Name)
		}
		return v.L
	case "iface":
		if len(v.L) != 2 {
			env.fail("expected interface argument for %s", p.Name)
		}
		return v.L
	default:
		if len(v.L) != 1 {
			env.fail("expected scalar argument for %s", p.Name)
		}
		return v.L
	}
}

func (env *Env) callSpec(sf *SpecFunc, x *SCall) Value {
	if len(sf.Params) != len(x.Args) {
		env.fail("spec %s: arity mismatch", sf.Name)
	}
	env.enc.usedSpecs[sf.Name] = true
	var args []Term
	for i, p := range sf.Params {
		args = append(args, env.specArg(p, env.eval(x.Args[i]))...)
	}
	rs := SInt
	if sf.Ret == "bool" {
		rs = SBool
	}
	t := app(rs, sf.Name, args...)
	if rs == SBool {
		return boolVal(t)
	}
	return intVal(t)
}

// specParamValue builds the Value a spec-function parameter is bound to inside its body.
func specParamValue(p ParamDecl, name string) Value {
	ls := specParamLeaves(p.Type)
	v := Value{Typ: specGoType(p.Type)}
	for _, l := range ls {
		v.L = append(v.L, Term{name + l.Suffix, l.Sort})
	}
	switch p.Type {
	case "[]byte", "[]int", "[]rune":
		v.SpecSl = true
	}
	return v
}

// resolveType resolves a small type expression in the current package.
func (env *Env) resolveType(s string) types.Type {
	s = strings.TrimSpace(s)
	switch {
	case strings.HasPrefix(s, "*"):
		return types.NewPointer(env.resolveType(s[1:]))
	case strings.HasPrefix(s, "[]"):
		return types.NewSlice(env.resolveType(s[2:]))
	}
	switch s {
	case "int":
		return tInt
	case "bool":
		return tBool
	case "byte":
		return types.Typ[types.Uint8]
	case "rune":
		return types.Typ[types.Int32]
	case "string":
		return types.Typ[types.String]
	case "int32":
		return types.Typ[types.Int32]
	case "int64":
		return types.Typ[types.Int64]
	case "uint32":
		return types.Typ[types.Uint32]
	case "uint64":
		return types.Typ[types.Uint64]
	case "error":
		return types.Universe.Lookup("error").Type()
	}
	if i := strings.LastIndex(s, "."); i >= 0 {
		pn, tn := s[:i], s[i+1:]
		for _, p := range env.enc.prog.AllPackages() {
			if p.Pkg.Name() == pn || p.Pkg.Path() == pn {
				if obj := p.Pkg.Scope().Lookup(tn); obj != nil {
					return obj.Type()
				}
			}
		}
	}
	if env.pkg != nil {
		if obj := env.pkg.Scope().Lookup(s); obj != nil {
			return obj.Type()
		}
	}
	env.fail("cannot resolve type %q", s)
	return nil
}
