package main

import (
	"sort"
	"regexp"
	"fmt"
	"go/token"
	"go/types"
	"strings"

	"golang.org/x/tools/go/ssa"
)

func findFunc(prog *ssa.Program, name string) *ssa.Function {
	return funcIndex(prog)[name]
}

// funcIdxAlias makes renamed functions findable under the names their contracts use.
func funcIdxAlias(prog *ssa.Program, alias map[string]string) {
	m := funcIndex(prog)
	for old, now := range alias {
		if f := m[now]; f != nil && m[old] == nil {
			m[old] = f
		}
	}
}

var funcIdxCache map[*ssa.Program]map[string]*ssa.Function

func funcIndex(prog *ssa.Program) map[string]*ssa.Function {
	if funcIdxCache == nil {
		funcIdxCache = map[*ssa.Program]map[string]*ssa.Function{}
	}
	if m, ok := funcIdxCache[prog]; ok {
		return m
	}
	m := map[string]*ssa.Function{}
	var visit func(f *ssa.Function)
	visit = func(f *ssa.Function) {
		if f == nil {
			return
		}
		if _, ok := m[f.String()]; ok {
			return
		}
		m[f.String()] = f
		for _, a := range f.AnonFuncs {
			visit(a)
		}
	}
	for _, p := range prog.AllPackages() {
		for _, mem := range p.Members {
			switch x := mem.(type) {
			case *ssa.Function:
				visit(x)
			case *ssa.Type:
				for _, t := range []types.Type{x.Type(), types.NewPointer(x.Type())} {
					ms := prog.MethodSets.MethodSet(t)
					for i := 0; i < ms.Len(); i++ {
						visit(prog.MethodValue(ms.At(i)))
					}
				}
			}
		}
	}
	funcIdxCache[prog] = m
	return m
}

func ifaceMethodName(cc *ssa.CallCommon) string {
	t := cc.Value.Type()
	return "(" + types.TypeString(t, nil) + ")." + cc.Method.Name()
}

func resultType(sig *types.Signature) types.Type {
	switch sig.Results().Len() {
	case 0:
		return nil
	case 1:
		return sig.Results().At(0).Type()
	}
	return sig.Results()
}

func (fv *FuncVerifier) freshResult(st *State, hint string, sig *types.Signature) Value {
	rt := resultType(sig)
	if rt == nil {
		return Value{}
	}
	return st.freshValue(hint, rt)
}

// call executes a call instruction. ok=false means the path ended.
func (fv *FuncVerifier) call(st *State, instr ssa.Instruction, cc *ssa.CallCommon, pos token.Pos) (Value, bool) {
	var args []Value
	for _, a := range cc.Args {
		args = append(args, st.get(a))
	}
	if b, ok := cc.Value.(*ssa.Builtin); ok {
		return fv.builtin(st, b, cc, args, pos), true
	}
	// addresses of locals passed to a callee escape: the local becomes a heap object
	for i := range args {
		if args[i].Place != nil && args[i].Place.Kind == PLocal {
			args[i] = st.promote(args[i])
		}
	}
	sig := cc.Signature()
	if cc.IsInvoke() {
		recv := st.get(cc.Value)
		name := ifaceMethodName(cc)
		if recv.Guard != nil {
			// invoking a callback stored in a guarded field: exclusive lock required, so that the
			// callback is never entered concurrently
			fv.guardInvoke(st, recv.Guard, cc.Method.Name(), pos)
		}
		if c := fv.db.Funcs[name]; c != nil {
			pn := []string{"self"}
			for i := 0; i < sig.Params().Len(); i++ {
				n := sig.Params().At(i).Name()
				if n == "" || n == "_" {
					n = fmt.Sprintf("arg%d", i)
				}
				pn = append(pn, n)
			}
			return fv.applyContract(st, c, name, pn, append([]Value{recv}, args...), sig, nil, pos), true
		}
		if pp := fv.db.purePrefixOf(name); pp != "" {
			fv.enc.assumedUsed["methods of interfaces of "+pp+" do not modify the tracked state (assumed pure): used "+shortName(name)] = true
			r := fv.freshResult(st, cc.Method.Name(), sig)
			if len(r.L) > 0 {
				st.assumeRefs(r)
			}
			return r, true
		}
		fv.enc.havocAllCalls["invoke "+name] = true
		fv.unknownCallee(st, "invoke "+name, pos)
		st.havocAll()
		return fv.freshResult(st, cc.Method.Name(), sig), true
	}
	callee := cc.StaticCallee()
	var clo *Closure
	if callee == nil {
		v := st.get(cc.Value)
		if v.Clo != nil {
			callee = v.Clo.Fn
			clo = v.Clo
		}
	} else if mc, ok := cc.Value.(*ssa.MakeClosure); ok {
		v := st.get(mc)
		clo = v.Clo
	}
	if callee == nil {
		if nt, ok := cc.Value.Type().(*types.Named); ok && nt.Obj().Pkg() != nil {
			// a function value of a named func type from an assumed-pure package (context.CancelFunc)
			if pp := fv.db.purePrefixOf(nt.Obj().Pkg().Path() + "." + nt.Obj().Name()); pp != "" {
				fv.enc.assumedUsed["function values of type "+nt.Obj().Pkg().Path()+"."+nt.Obj().Name()+" do not modify the tracked state (assumed pure)"] = true
				return fv.freshResult(st, "dyn", sig), true
			}
		}
		fv.enc.havocAllCalls["dynamic call "+fv.valName(cc.Value)] = true
		fv.unknownCallee(st, "dynamic call "+fv.valName(cc.Value), pos)
		st.havocAll()
		return fv.freshResult(st, "dyn", sig), true
	}
	name := callee.String()
	if nat := nativeSpec(name); nat != nil && nat.apply != nil {
		fv.enc.assumedUsed[name+": "+nat.doc] = true
		return nat.apply(fv, st, cc, args, pos), true
	}
	c := fv.db.Funcs[name]
	if c == nil && callee.Origin() != nil {
		c = fv.db.Funcs[callee.Origin().String()]
	}
	if c == nil && clo != nil && len(clo.Bindings) == 0 && len(callee.FreeVars) == 0 && inlineDepth > 0 && fv.db.purePrefixOf(name) != "" {
		// a plain function passed as a value into a callee that is being executed in place
		// (matchPrefix(s, 2, isOctal)): executing it in place too is more precise than the "pure
		// package" assumption, and does not rest on it
		if r, ok := fv.tryInline(st, instr, callee, args, pos); ok {
			return r, true
		}
	}
	if c == nil {
		if pp := fv.db.purePrefixOf(name); pp != "" {
			fv.enc.assumedUsed["functions of "+pp+" do not modify the tracked state (assumed pure): used "+shortName(name)] = true
			r := fv.freshResult(st, callee.Name(), sig)
			if len(r.L) > 0 {
				st.assumeRefs(r)
			}
			return r, true
		}
		if clo == nil || (len(clo.Bindings) == 0 && len(callee.FreeVars) == 0) {
			// (a plain function used as a value captures nothing: it is an ordinary static callee)
			if r, ok := fv.tryInline(st, instr, callee, args, pos); ok {
				return r, true
			}
		}
		fv.enc.havocAllCalls[name] = true
		fv.unknownCallee(st, name, pos)
		st.havocAll()
		r := fv.freshResult(st, callee.Name(), sig)
		return r, true
	}
	if c.Inline && !c.Assumed && clo == nil {
		// contract says "inline": the body is executed at the call site (loops unrolled as the
		// contract's "loop k unroll n" clauses say, with unwinding obligations)
		if r, ok := fv.tryInlineWith(st, instr, callee, args, pos, c); ok {
			return r, true
		}
	}
	var pn []string
	for _, p := range callee.Params {
		pn = append(pn, p.Name())
	}
	if c.Assumed {
		fv.enc.assumedUsed[name+": "+contractSummary(c)] = true
	}
	return fv.applyContract(st, c, name, pn, args, callee.Signature, &calleeInfo{fn: callee, clo: clo}, pos), true
}

func contractSummary(c *FuncContract) string {
	var parts []string
	for _, r := range c.Requires {
		parts = append(parts, "requires "+r.Src)
	}
	for _, r := range c.Ensures {
		parts = append(parts, "ensures "+r.Src)
	}
	if c.Pure {
		parts = append(parts, "pure")
	}
	for _, r := range c.Modifies {
		parts = append(parts, "modifies "+r.Src)
	}
	return strings.Join(parts, "; ")
}

type calleeInfo struct {
	fn  *ssa.Function
	clo *Closure
}

func shortName(full string) string {
	// strip package path
	i := strings.LastIndex(full, "/")
	return full[i+1:]
}

// applyContract: assert pre, havoc modifies, assume post.
func (fv *FuncVerifier) applyContract(st *State, c *FuncContract, name string, pnames []string, args []Value, sig *types.Signature, ci *calleeInfo, pos token.Pos) Value {
	vars := map[string]Value{}
	for i, n := range pnames {
		if i < len(args) {
			vars[n] = args[i]
		}
	}
	var capturedCells []ssa.Value
	if ci != nil && ci.clo != nil {
		for i, fvv := range ci.fn.FreeVars {
			b := ci.clo.Bindings[i]
			if b.Place != nil {
				vars[fvv.Name()] = st.load(b.Place)
				if b.Place.Kind == PLocal {
					capturedCells = append(capturedCells, b.Place.Cell)
				}
			} else {
				vars[fvv.Name()] = b
			}
		}
	}
	pkg := fv.enc.pkgByPath(c.Pkg)
	if pkg == nil && ci != nil && ci.fn.Pkg != nil {
		pkg = ci.fn.Pkg.Pkg
	}
	// ghost (logical) parameters are universally quantified over the whole contract, so a call
	// site may instantiate them with anything: a ghost parameter of the caller with the same name
	// is used; clauses that mention a ghost parameter the caller cannot instantiate are dropped
	// from the assumed postcondition (sound) and fail as preconditions.
	var unboundGhost []string
	for _, g := range c.Ghost {
		if gv, ok := fv.ghost[g.Name]; ok {
			vars[g.Name] = gv
		} else {
			unboundGhost = append(unboundGhost, g.Name)
		}
	}
	mentionsUnbound := func(e SExpr) bool {
		if len(unboundGhost) == 0 {
			return false
		}
		txt := e.String()
		for _, g := range unboundGhost {
			if regexp.MustCompile(`\b` + regexp.QuoteMeta(g) + `\b`).MatchString(txt) {
				return true
			}
		}
		return false
	}
	env := &Env{fv: fv, enc: fv.enc, st: st, vars: vars, pkg: pkg, nb: &fv.enc.nfresh}
	fv.callIdx[name]++
	k := fv.callIdx[name]
	sn := shortName(name)
	for i, r := range c.Requires {
		if mentionsUnbound(r.E) {
			fv.addOb(st, "pre", fmt.Sprintf("pre:%s#%d.%d", sn, k, i), FalseT, "precondition mentions a logical parameter the caller cannot instantiate: "+r.Src, pos)
			continue
		}
		g := fv.safeEvalBool(env, r.E, "pre of "+sn)
		preOb := fv.addOb(st, "pre", fmt.Sprintf("pre:%s#%d.%d", sn, k, i), g, r.Src, pos)
		preOb.PC = append(preOb.PC, revealAxioms(fv.enc, r.Reveal)...)
		st.assume(g)
	}
	if c.NoLocks {
		// the callee must be entered with none of the tracked locks held
		var cs []Term
		for _, n := range sortedKeys(st.heap) {
			if strings.HasPrefix(n, "LK_") {
				a := st.heap[n]
				cs = append(cs, Forall([]string{"x!l"}, Eq(Select(a, Term{"x!l", SInt}), I(0))))
			}
		}
		if !fv.fc.NoLocks {
			cs = append(cs, FalseT) // locks possibly held at our own entry are unknown
		}
		fv.addOb(st, "pre", fmt.Sprintf("pre:%s#%d.nolocks", sn, k), And(cs...), "callee must be entered with no tracked lock held", pos)
	}
	if fv.ccMode == ccPreOnly {
		return Value{}
	}
	old := st.clone()
	// havoc
	if !c.HasModifies {
		st.havocAll()
	} else {
		// allocation may happen (before the havoc, so that havocked references may point to new objects)
		nh := fv.enc.fresh("hwm", SInt)
		st.assume(Ge(nh, st.hwm))
		st.hwm = nh
		for _, m := range c.Modifies {
			fv.havocClause(st, env, old, m.E, ci)
		}
	}
	if ci != nil && ci.clo != nil {
		for i, fvv := range ci.fn.FreeVars {
			b := ci.clo.Bindings[i]
			if b.Place != nil && b.Place.Kind == PLocal && closureStores(ci.fn, fvv) {
				cur := st.cells[b.Place.Cell]
				if cur.Place == nil && cur.Clo == nil {
					st.cells[b.Place.Cell] = st.freshValue(fvv.Name(), cur.Typ)
				}
			}
		}
	}
	_ = capturedCells
	res := fv.freshResult(st, sn, sig)
	if len(res.L) > 0 {
		st.assumeRefs(res)
	}
	// bind results
	post := map[string]Value{}
	for k2, v := range vars {
		post[k2] = v
	}
	fv.bindResults(post, res, sig, ci)
	if ci != nil && ci.clo != nil {
		for i, fvv := range ci.fn.FreeVars {
			b := ci.clo.Bindings[i]
			if b.Place != nil {
				post[fvv.Name()] = st.load(b.Place)
			}
		}
	}
	penv := &Env{fv: fv, enc: fv.enc, st: st, old: old, vars: post, oldVars: vars, pkg: pkg, nb: &fv.enc.nfresh}
	if fv.ccMode == ccHavocOnly {
		return res
	}
	for _, e := range c.Ensures {
		if mentionsUnbound(e.E) {
			continue
		}
		st.assume(fv.safeEvalBool(penv, e.E, "post of "+sn))
	}
	return res
}

func (fv *FuncVerifier) bindResults(vars map[string]Value, res Value, sig *types.Signature, ci *calleeInfo) {
	n := sig.Results().Len()
	if n == 0 {
		return
	}
	if n == 1 {
		vars["result"] = res
		vars["result0"] = res
		if nm := sig.Results().At(0).Name(); nm != "" && nm != "_" {
			vars[nm] = res
		}
		return
	}
	tt := sig.Results()
	for i := 0; i < n; i++ {
		lo, hi := tupleRange(tt, i)
		v := Value{Typ: tt.At(i).Type(), L: res.L[lo:hi]}
		vars[fmt.Sprintf("result%d", i)] = v
		if nm := tt.At(i).Name(); nm != "" && nm != "_" {
			vars[nm] = v
		}
	}
}

func (fv *FuncVerifier) safeEvalBool(env *Env, e SExpr, what string) (t Term) {
	defer func() {
		if r := recover(); r != nil {
			if se, ok := r.(specErr); ok {
				panic(specErr(fmt.Sprintf("%s: %s", what, string(se))))
			}
			panic(r)
		}
	}()
	return env.evalB(e)
}

// havocClause havocs the locations named by a modifies clause.
func (fv *FuncVerifier) havocClause(st *State, env *Env, old *State, e SExpr, ci *calleeInfo) {
	oenv := *env
	oenv.st = old
	switch x := e.(type) {
	case *SField:
		base := oenv.eval(x.X)
		t, isPtr := derefType(base.Typ)
		stt, ok := t.Underlying().(*types.Struct)
		if !ok || !isPtr {
			env.fail("modifies: %s is not a field of a heap object", e.String())
		}
		for i := 0; i < stt.NumFields(); i++ {
			if stt.Field(i).Name() == x.Name {
				var p *Place
				if base.Place != nil {
					p = base.Place.field(i)
				} else {
					p = st.placeOfRef(base.L[0], t).field(i)
				}
				fv.havocPlace(st, p)
				return
			}
		}
		env.fail("modifies: no field %s", x.Name)
	case *SCall:
		switch x.Fn {
		case "elems":
			sv := oenv.eval(x.Args[0])
			sl, ok := sv.Typ.Underlying().(*types.Slice)
			if !ok {
				env.fail("elems() of non-slice")
			}
			for _, l := range flatten(sl.Elem()) {
				name := "E_" + typeKey(sl.Elem()) + l.Suffix
				a := st.heapArr(name, arrSort(arrSort(l.Sort)))
				na := fv.enc.fresh("havoc", arrSort(l.Sort))
				st.setHeap(name, Store(a, sv.L[0], na))
			}
			return
		case "deref":
			pv := oenv.eval(x.Args[0])
			var p *Place
			if pv.Place != nil {
				p = pv.Place
			} else {
				p = st.placeOfPtr(pv)
			}
			fv.havocPlace(st, p)
			return
		case "all":
			// all(Type.field): whole heap prefix
			st.havocPrefix(fv.prefixOfTypeField(env, typeExprString(x.Args[0])))
			return
		case "ghost":
			id := x.Args[0].(*SIdent)
			nv := fv.enc.fresh("GH_"+id.Name, SInt)
			st.heap["GH_"+id.Name] = nv
			return
		case "locks":
			st.havocPrefix("LK_")
			return
		case "mapcontent":
			mv := oenv.eval(x.Args[0])
			a := st.heapArr("M_content", SArr)
			st.setHeap("M_content", Store(a, mv.L[0], fv.enc.fresh("mapver", SInt)))
			return
		case "anything":
			// arbitrary effects on the heap (concurrent/unknown code), but the calling
			// goroutine's lock set is as before
			st.havocAllKeepLocks()
			return
		}
	case *SIdent:
		// region name or captured variable
		if fields, ok := fv.db.Regions[x.Name]; ok {
			for _, f := range fields {
				st.havocPrefix(fv.prefixOfTypeField(env, f))
			}
			if regionHasMaps(env, fields) {
				st.havocPrefix("M_")
			}
			return
		}
		if ci != nil && ci.clo != nil {
			for i, fvv := range ci.fn.FreeVars {
				if fvv.Name() == x.Name {
					b := ci.clo.Bindings[i]
					if b.Place != nil {
						fv.havocPlace(st, b.Place)
						return
					}
				}
			}
		}
	}
	env.fail("unsupported modifies clause %s", e.String())
}

func (fv *FuncVerifier) prefixOfTypeField(env *Env, tf string) string {
	if strings.HasPrefix(tf, "ghost:") {
		return "GH_" + tf[6:]
	}
	i := strings.LastIndex(tf, ".")
	if i < 0 {
		env.fail("expected Type.field, got %q", tf)
	}
	t := env.resolveType(tf[:i])
	return "H_" + typeKey(t) + "." + tf[i+1:]
}

func (fv *FuncVerifier) havocPlace(st *State, p *Place) {
	if p.Kind == PLocal {
		cur := st.cells[p.Cell]
		nv := st.freshValue("havoc", p.Typ)
		nl := append([]Term(nil), cur.L...)
		copy(nl[p.Lo:], nv.L)
		st.cells[p.Cell] = Value{Typ: cur.Typ, L: nl}
		return
	}
	nv := st.freshValue("havoc", p.Typ)
	st.assumeRefs(nv)
	st.store(p, nv)
}

// modClausePrefixes maps a modifies clause to heap prefixes using static types only.
func modClausePrefixes(enc *Enc, fn *ssa.Function, c *FuncContract, e SExpr) ([]string, bool) {
	tenv := map[string]types.Type{}
	if fn != nil {
		for _, p := range fn.Params {
			tenv[p.Name()] = p.Type()
		}
		for _, p := range fn.FreeVars {
			if pt, ok := p.Type().Underlying().(*types.Pointer); ok {
				tenv[p.Name()] = pt.Elem()
			}
		}
	}
	var typeOf func(e SExpr) types.Type
	typeOf = func(e SExpr) types.Type {
		switch x := e.(type) {
		case *SIdent:
			return tenv[x.Name]
		case *SField:
			bt := typeOf(x.X)
			if bt == nil {
				return nil
			}
			t, _ := derefType(bt)
			if s, ok := t.Underlying().(*types.Struct); ok {
				for i := 0; i < s.NumFields(); i++ {
					if s.Field(i).Name() == x.Name {
						return s.Field(i).Type()
					}
				}
			}
		case *SIndex:
			bt := typeOf(x.X)
			if bt == nil {
				return nil
			}
			if s, ok := bt.Underlying().(*types.Slice); ok {
				return s.Elem()
			}
		}
		return nil
	}
	switch x := e.(type) {
	case *SField:
		bt := typeOf(x.X)
		if bt == nil {
			return nil, false
		}
		t, isPtr := derefType(bt)
		if !isPtr {
			return nil, false
		}
		// path of nested fields from the pointer root
		return []string{"H_" + typeKey(t) + "." + x.Name}, true
	case *SCall:
		switch x.Fn {
		case "elems":
			bt := typeOf(x.Args[0])
			if bt == nil {
				return nil, false
			}
			if s, ok := bt.Underlying().(*types.Slice); ok {
				return []string{"E_" + typeKey(s.Elem())}, true
			}
		case "deref":
			bt := typeOf(x.Args[0])
			if bt == nil {
				return nil, false
			}
			t, isPtr := derefType(bt)
			if !isPtr {
				return nil, false
			}
			switch u := t.Underlying().(type) {
			case *types.Struct:
				return []string{"H_" + typeKey(t)}, true
			case *types.Array:
				return []string{"E_" + typeKey(u.Elem())}, true
			default:
				return []string{"C_" + typeKey(t)}, true
			}
		case "all":
			env := &Env{enc: enc, pkg: enc.pkgByPath(c.Pkg), nb: &enc.nfresh}
			tf := typeExprString(x.Args[0])
			i := strings.LastIndex(tf, ".")
			t := env.resolveType(tf[:i])
			return []string{"H_" + typeKey(t) + "." + tf[i+1:]}, true
		case "ghost":
			id := x.Args[0].(*SIdent)
			return []string{"GH_" + id.Name}, true
		case "locks":
			return []string{"LK_"}, true
		case "mapcontent":
			return []string{"M_content"}, true
		}
	case *SIdent:
		if fields, ok := enc.db.Regions[x.Name]; ok {
			env := &Env{enc: enc, pkg: enc.pkgByPath(c.Pkg), nb: &enc.nfresh}
			var out []string
			for _, tf := range fields {
				if strings.HasPrefix(tf, "ghost:") {
					out = append(out, "GH_"+tf[6:])
					continue
				}
				i := strings.LastIndex(tf, ".")
				t := env.resolveType(tf[:i])
				out = append(out, "H_"+typeKey(t)+"."+tf[i+1:])
			}
			if regionHasMaps(env, fields) {
				out = append(out, "M_")
			}
			return out, true
		}
		// captured variable: a cell of the caller; nothing in the heap
		if _, ok := tenv[x.Name]; ok {
			return nil, true
		}
	}
	return nil, false
}

// ---------------------------------------------------------------------------
// builtins

func (fv *FuncVerifier) builtin(st *State, b *ssa.Builtin, cc *ssa.CallCommon, args []Value, pos token.Pos) Value {
	enc := fv.enc
	switch b.Name() {
	case "len":
		a := args[0]
		switch u := a.Typ.Underlying().(type) {
		case *types.Slice:
			return intVal(a.L[2])
		case *types.Basic:
			return intVal(a.L[2])
		case *types.Array:
			return intVal(I(u.Len()))
		case *types.Pointer:
			return intVal(I(u.Elem().Underlying().(*types.Array).Len()))
		case *types.Map, *types.Chan:
			fv.guardAccess(st, cc.Args[0], false, pos)
			r := enc.fresh("maplen", SInt)
			st.assume(Ge(r, I(0)))
			return intVal(r)
		}
	case "cap":
		a := args[0]
		switch u := a.Typ.Underlying().(type) {
		case *types.Slice:
			return intVal(a.L[3])
		case *types.Array:
			return intVal(I(u.Len()))
		}
	case "append":
		return fv.appendOp(st, cc, args)
	case "copy":
		return fv.copyOp(st, cc, args)
	case "min", "max":
		r := args[0].L[0]
		for _, a := range args[1:] {
			if b.Name() == "min" {
				r = Ite(Le(r, a.L[0]), r, a.L[0])
			} else {
				r = Ite(Ge(r, a.L[0]), r, a.L[0])
			}
		}
		return Value{Typ: args[0].Typ, L: []Term{r}}
	case "delete", "clear":
		if _, isMap := args[0].Typ.Underlying().(*types.Map); isMap {
			fv.guardAccess(st, cc.Args[0], true, pos)
			if b.Name() == "delete" && len(args) == 2 {
				if key, kok := fv.enc.mapKey(args[1]); kok {
					fv.mapSetKey(st, cc.Args[0], key, false, nil)
					return Value{}
				}
			}
			fv.markMapDirty(st, cc.Args[0])
			return Value{}
		}
	case "print", "println":
		return Value{}
	case "ssa:wrapnilchk":
		return args[0]
	case "ssa:deferstack":
		return Value{Typ: types.Typ[types.Int], L: []Term{I(0)}}
	}
	panic(unsupported("builtin " + b.Name()))
}

func (fv *FuncVerifier) appendOp(st *State, cc *ssa.CallCommon, args []Value) Value {
	enc := fv.enc
	s := args[0]
	sl := s.Typ.Underlying().(*types.Slice)
	et := sl.Elem()
	if len(args) == 1 {
		return s
	}
	t := args[1]
	tIsString := isString(t.Typ)
	// known constant-length varargs?
	var tlen Term
	if tIsString {
		tlen = t.L[2]
	} else {
		tlen = t.L[2]
	}
	newLen := Add(s.L[2], tlen)
	inplace := Le(newLen, s.L[3])
	fresh := st.alloc()
	rarr := Ite(inplace, s.L[0], fresh)
	roff := Ite(inplace, s.L[1], I(0))
	ncap := enc.fresh("cap", SInt)
	st.assume(Ge(ncap, newLen))
	rcap := Ite(inplace, s.L[3], ncap)
	n, constLen := constInt(tlen)
	for _, l := range flatten(et) {
		name := "E_" + typeKey(et) + l.Suffix
		ea := st.heapArr(name, arrSort(arrSort(l.Sort)))
		srcInner := Select(ea, s.L[0])
		// in-place result
		var inpl Term
		k := Term{"k!q", SInt}
		elemOfT := func(i Term) Term {
			if tIsString {
				enc.declareFun("sbyte", []string{"Int", "Int"}, "Int")
				return enc.strAt(t.L[0], t.L[1], i)
			}
			return enc.elemAt(Select(ea, t.L[0]), t.L[1], i)
		}
		if constLen && n <= 8 {
			inpl = srcInner
			for i := int64(0); i < n; i++ {
				inpl = Store(inpl, Add(Add(s.L[1], s.L[2]), I(i)), elemOfT(I(i)))
			}
		} else {
			ia := enc.fresh("appin", arrSort(l.Sort))
			st.assume(Forall([]string{"k!q"}, Eq(Select(ia, k),
				Ite(And(Le(Add(s.L[1], s.L[2]), k), Lt(k, Add(Add(s.L[1], s.L[2]), tlen))), elemOfT(Sub(k, Add(s.L[1], s.L[2]))), Select(srcInner, k)))))
			inpl = ia
		}
		// reallocated result
		ra := enc.fresh("appnew", arrSort(l.Sort))
		st.assume(Forall([]string{"k!q"}, Implies(And(Le(I(0), k), Lt(k, s.L[2])), Eq(Select(ra, k), enc.elemAt(srcInner, s.L[1], k)))))
		if constLen && n <= 8 {
			for i := int64(0); i < n; i++ {
				st.assume(Eq(Select(ra, Add(s.L[2], I(i))), elemOfT(I(i))))
			}
		} else {
			st.assume(Forall([]string{"k!q"}, Implies(And(Le(I(0), k), Lt(k, tlen)), Eq(Select(ra, Add(s.L[2], k)), elemOfT(k)))))
		}
		st.setHeap(name, Store(ea, rarr, Ite(inplace, inpl, ra)))
		// the same facts once more in the shape in which the result is read back (element k of
		// the result slice), so that quantified invariants over the old slice are triggered by
		// reads of the new one (redundant, derivable from the definitions above)
		resInner := enc.fresh("appres", arrSort(l.Sort))
		st.assume(Eq(resInner, Select(st.heapArr(name, arrSort(arrSort(l.Sort))), rarr)))
		roffC := enc.fresh("appoff", SInt)
		st.assume(Eq(roffC, roff))
		lhs := enc.elemAt(resInner, roffC, k)
		st.assume(Term{"(forall ((k!q Int)) (! " + Implies(And(Le(I(0), k), Lt(k, s.L[2])), Eq(lhs, enc.elemAt(srcInner, s.L[1], k))).S + " :pattern (" + lhs.S + ")))", SBool})
		if constLen && n <= 8 {
			for i := int64(0); i < n; i++ {
				st.assume(Eq(enc.elemAt(resInner, roffC, Add(s.L[2], I(i))), elemOfT(I(i))))
			}
		}
	}
	return Value{Typ: s.Typ, L: []Term{rarr, roff, newLen, rcap}}
}

func (fv *FuncVerifier) copyOp(st *State, cc *ssa.CallCommon, args []Value) Value {
	enc := fv.enc
	d, s := args[0], args[1]
	dl := d.Typ.Underlying().(*types.Slice)
	et := dl.Elem()
	n := Ite(Le(d.L[2], s.L[2]), d.L[2], s.L[2])
	nn := enc.fresh("copyn", SInt)
	st.assume(Eq(nn, n))
	sIsString := isString(s.Typ)
	for _, l := range flatten(et) {
		name := "E_" + typeKey(et) + l.Suffix
		ea := st.heapArr(name, arrSort(arrSort(l.Sort)))
		dst := Select(ea, d.L[0])
		k := Term{"k!q", SInt}
		var src Term
		if sIsString {
			enc.declareFun("sbyte", []string{"Int", "Int"}, "Int")
			src = enc.strAt(s.L[0], s.L[1], Sub(k, d.L[1]))
		} else {
			src = enc.elemAt(Select(ea, s.L[0]), s.L[1], Sub(k, d.L[1]))
		}
		na := enc.fresh("copied", arrSort(l.Sort))
		st.assume(Forall([]string{"k!q"}, Eq(Select(na, k), Ite(And(Le(d.L[1], k), Lt(k, Add(d.L[1], nn))), src, Select(dst, k)))))
		st.setHeap(name, Store(ea, d.L[0], na))
	}
	return intVal(nn)
}

func (fv *FuncVerifier) runDeferred(st *State, d deferred) bool {
	cc := d.call.Common()
	// reuse call(): registers for args are still available
	_, ok := fv.call(st, d.call, cc, d.call.Pos())
	return ok
}

// ---------------------------------------------------------------------------
// environments

func (fv *FuncVerifier) pkgOf() *types.Package {
	if fv.fn.Pkg != nil {
		return fv.fn.Pkg.Pkg
	}
	if p := fv.fn.Parent(); p != nil && p.Pkg != nil {
		return p.Pkg.Pkg
	}
	if fv.fc != nil {
		return fv.enc.pkgByPath(fv.fc.Pkg)
	}
	return nil
}

func (fv *FuncVerifier) preEnv(st *State) *Env {
	vars := map[string]Value{}
	for k, v := range fv.params {
		vars[k] = v
	}
	for k, v := range fv.ghost {
		vars[k] = v
	}
	for _, fvv := range fv.fn.FreeVars {
		if cv, ok := st.cells[fvv]; ok {
			vars[fvv.Name()] = cv
		}
	}
	return &Env{fv: fv, enc: fv.enc, st: st, vars: vars, pkg: fv.pkgOf(), nb: &fv.enc.nfresh}
}

func (fv *FuncVerifier) postEnv(st *State, results []Value) *Env {
	vars := map[string]Value{}
	for k, v := range fv.params {
		vars[k] = v
	}
	for k, v := range fv.ghost {
		vars[k] = v
	}
	// captured variables: current values
	for _, fvv := range fv.fn.FreeVars {
		if cv, ok := st.cells[fvv]; ok {
			vars[fvv.Name()] = cv
		}
	}
	// local variables that exist at this return (usable under bound(x)); parameters and
	// results keep their names
	for name, allocs := range fv.nameCells {
		if _, taken := vars[name]; taken {
			continue
		}
		var pick *ssa.Alloc
		for _, a := range allocs {
			if _, live := st.cells[a]; !live {
				continue
			}
			if pick == nil || st.allocSeq[a] > st.allocSeq[pick] {
				pick = a
			}
		}
		if pick != nil {
			vars[name] = st.cells[pick]
		}
	}
	oldVars := map[string]Value{}
	for _, fvv := range fv.fn.FreeVars {
		if cv, ok := fv.pre.cells[fvv]; ok {
			oldVars[fvv.Name()] = cv
		}
	}
	sig := fv.fn.Signature
	n := sig.Results().Len()
	for i := 0; i < n && i < len(results); i++ {
		vars[fmt.Sprintf("result%d", i)] = results[i]
		if nm := sig.Results().At(i).Name(); nm != "" && nm != "_" {
			vars[nm] = results[i]
		}
	}
	if n == 1 && len(results) == 1 {
		vars["result"] = results[0]
	}
	return &Env{fv: fv, enc: fv.enc, st: st, old: fv.pre, vars: vars, oldVars: oldVars, pkg: fv.pkgOf(), nb: &fv.enc.nfresh}
}

// invEnv: names are source variables (current cell values).
func (fv *FuncVerifier) invEnv(st *State, li *loopInfo) *Env {
	vars := map[string]Value{}
	oldVars := map[string]Value{}
	for k, v := range fv.params {
		vars[k] = v
		oldVars[k] = v
	}
	for k, v := range fv.ghost {
		vars[k] = v
	}
	for _, fvv := range fv.fn.FreeVars {
		if cv, ok := st.cells[fvv]; ok {
			vars[fvv.Name()] = cv
		}
	}
	// header position
	var hpos token.Pos
	for _, ins := range li.header.Instrs {
		if ins.Pos().IsValid() {
			hpos = ins.Pos()
			break
		}
	}
	for name, allocs := range fv.nameCells {
		// the variable in scope at the loop header: the most recently allocated live cell of
		// that name which is not declared inside the loop body
		var pick *ssa.Alloc
		for _, a := range allocs {
			if _, live := st.cells[a]; !live {
				continue
			}
			if li.body[a.Block()] {
				continue
			}
			if pick == nil || st.allocSeq[a] > st.allocSeq[pick] {
				pick = a
			}
		}
		_ = hpos
		if pick != nil {
			vars[name] = st.cells[pick]
		}
		if name == "rangeindex" || name == "rangeint.iter" {
			// enclosing range loops: rangeindex2 / rangeindex3 are the hidden counters of the next
			// outer loops (most recent first)
			var live []*ssa.Alloc
			for _, a := range allocs {
				if _, ok := st.cells[a]; ok && !li.body[a.Block()] {
					live = append(live, a)
				}
			}
			sort.Slice(live, func(i, j int) bool { return st.allocSeq[live[i]] > st.allocSeq[live[j]] })
			for k := 1; k < len(live) && k < 3; k++ {
				vars[fmt.Sprintf("%s%d", strings.ReplaceAll(strings.ReplaceAll(name, "rangeint.iter", "rangeiter"), ".", ""), k+1)] = st.cells[live[k]]
			}
		}
	}
	// the hidden counter of a range-over-int loop
	if v, ok := vars["rangeint.iter"]; ok {
		vars["rangeiter"] = v
	}
	// range position of string loops
	for r, p := range st.rangePos {
		if li.cells[r] || true {
			_ = r
			vars["rangepos"] = intVal(p)
		}
	}
	return &Env{fv: fv, enc: fv.enc, st: st, old: fv.pre, vars: vars, oldVars: oldVars, pkg: fv.pkgOf(), nb: &fv.enc.nfresh, loopEntry: li.entry}
}
