package main

import (
	"sort"
	"fmt"
	"go/types"
	"strings"

	"golang.org/x/tools/go/ssa"
)

// ---------------------------------------------------------------------------
// Places: where a pointer known at translation time points.

type PlaceKind int

const (
	PLocal PlaceKind = iota // leaves Lo.. of a local cell
	PHeap                   // heap[Prefix+suffix][Obj]
	PElem                   // heap[Prefix+suffix][Arr][Idx]
	PGlobal                 // heap[Prefix+suffix]
)

type Place struct {
	Kind   PlaceKind
	Typ    types.Type
	Cell   ssa.Value // *ssa.Alloc or *ssa.FreeVar (PLocal)
	Lo     int
	Path   string // field path below the cell (PLocal), e.g. ".input.pos"
	Prefix string
	Obj    Term
	Arr    Term
	Off    Term // slice offset (PElem); element index is Off+Idx
	Idx    Term
}

type Closure struct {
	Fn       *ssa.Function
	Bindings []Value
}

// ---------------------------------------------------------------------------
// Encoder-wide registry (per verified function)

type Enc struct {
	decls     map[string]string // const name -> sort
	declOrder []string
	funs      map[string]string // uninterpreted function decl lines
	funOrder  []string
	axioms    []string // global axioms (string constants, lemma instances)
	axiomSet  map[string]bool
	nfresh    int
	epochCtr  int
	strConsts map[string]int
	typeIDs   map[string]int
	afterHavoc func(now, before *State)
	typeObjs  map[int]types.Type       // concrete types by id
	implIface map[string]types.Type    // impl_<I> predicate -> interface type
	usedSpecs map[string]bool
	db        *ContractDB
	prog      *ssa.Program
	pkg       *ssa.Package
	assumedUsed map[string]bool
	inlinedUsed map[string]bool
	havocAllCalls map[string]bool
	bv        bool
	refLeaf   map[string]int  // heap array name -> levels (1: Array Int Int, 2: Array Int (Array Int Int)) holding references
	refDone   map[string]bool
	epochHwm  map[int]Term    // allocation mark at the creation of each heap epoch
	leafInfo  map[string]leafReg
	loopEpochs map[int]bool // heap epochs created by loop havocs
	entryFrames map[int]*entryFrame // heap epochs created by the havoc of a loop with an entry-relative frame
	mergeEpochs map[int]*mergeEp
	keepLockEpochs map[int]*mergeEp
	noLocksAtEntry bool
	nsub      int
	frameHook func(name string, t Term, sort string)
}

func NewEnc(db *ContractDB, prog *ssa.Program, pkg *ssa.Package) *Enc {
	return &Enc{decls: map[string]string{}, funs: map[string]string{}, axiomSet: map[string]bool{}, strConsts: map[string]int{}, typeIDs: map[string]int{}, usedSpecs: map[string]bool{}, db: db, prog: prog, pkg: pkg, assumedUsed: map[string]bool{}, inlinedUsed: map[string]bool{}, havocAllCalls: map[string]bool{}, refLeaf: map[string]int{}, refDone: map[string]bool{}, epochHwm: map[int]Term{}, leafInfo: map[string]leafReg{}, loopEpochs: map[int]bool{}, entryFrames: map[int]*entryFrame{}, mergeEpochs: map[int]*mergeEp{}, keepLockEpochs: map[int]*mergeEp{}}
}

func (e *Enc) declare(name, sort string) Term {
	if s, ok := e.decls[name]; ok {
		if s != sort {
			panic(fmt.Sprintf("redeclaration of %s: %s vs %s", name, s, sort))
		}
		return Term{name, sort}
	}
	e.decls[name] = sort
	e.declOrder = append(e.declOrder, name)
	return Term{name, sort}
}

func (e *Enc) fresh(hint, sort string) Term {
	e.nfresh++
	hint = sanitize(hint)
	return e.declare(fmt.Sprintf("%s!%d", hint, e.nfresh), sort)
}

func (e *Enc) declareFun(name string, argSorts []string, ret string) {
	if _, ok := e.funs[name]; ok {
		return
	}
	e.funs[name] = fmt.Sprintf("(declare-fun %s (%s) %s)", name, strings.Join(argSorts, " "), ret)
	e.funOrder = append(e.funOrder, name)
}

func (e *Enc) addAxiom(a string) {
	if e.axiomSet[a] {
		return
	}
	e.axiomSet[a] = true
	e.axioms = append(e.axioms, a)
}

func sanitize(s string) string {
	var sb strings.Builder
	for _, c := range s {
		switch {
		case c >= 'a' && c <= 'z', c >= 'A' && c <= 'Z', c >= '0' && c <= '9', c == '_', c == '.', c == '$':
			sb.WriteRune(c)
		default:
			sb.WriteByte('_')
		}
	}
	if sb.Len() == 0 {
		return "v"
	}
	return sb.String()
}

func (e *Enc) typeID(t types.Type) Term {
	k := types.TypeString(t, nil)
	id, ok := e.typeIDs[k]
	if !ok {
		id = len(e.typeIDs) + 1
		e.typeIDs[k] = id
	}
	if e.typeObjs == nil {
		e.typeObjs = map[int]types.Type{}
	}
	e.typeObjs[id] = t
	return I(int64(id))
}

// implPred declares the "dynamic type implements interface I" predicate.
func (e *Enc) implPred(t types.Type) string {
	fn := "impl_" + typeKey(t)
	e.declareFun(fn, []string{"Int"}, "Bool")
	if e.implIface == nil {
		e.implIface = map[string]types.Type{}
	}
	e.implIface[fn] = t
	return fn
}

// implFacts: for every concrete type that occurs in the function and every interface tested,
// whether the type implements the interface is a fact of the type checker.
func (e *Enc) implFacts() []string {
	var out []string
	var fns []string
	for fn := range e.implIface {
		fns = append(fns, fn)
	}
	sort.Strings(fns)
	var ids []int
	for id := range e.typeObjs {
		ids = append(ids, id)
	}
	sort.Ints(ids)
	for _, fn := range fns {
		it, ok := e.implIface[fn].Underlying().(*types.Interface)
		if !ok {
			continue
		}
		for _, id := range ids {
			t := e.typeObjs[id]
			if _, isIface := t.Underlying().(*types.Interface); isIface {
				continue
			}
			if types.Implements(t, it) {
				out = append(out, fmt.Sprintf("(%s %d)", fn, id))
			} else {
				out = append(out, fmt.Sprintf("(not (%s %d))", fn, id))
			}
		}
	}
	return out
}

// strConst returns the (id,off,len) of a string constant and records its bytes as axioms.
func (e *Enc) strConst(s string) []Term {
	idx, ok := e.strConsts[s]
	if !ok {
		idx = len(e.strConsts) + 1
		e.strConsts[s] = idx
		e.declareFun("sbyte", []string{"Int", "Int"}, "Int")
		if len(s) <= 80 {
			for i := 0; i < len(s); i++ {
				e.addAxiom(fmt.Sprintf("(= (sbyte (- %d) %d) %d)", idx, i, s[i]))
			}
		}
	}
	return []Term{I(int64(-idx)), I(0), I(int64(len(s)))}
}

// ---------------------------------------------------------------------------
// State

type deferred struct {
	call *ssa.Defer
	fn   Value
	args []Value
}

type State struct {
	inlineResult Value // results of an inlined callee at its return (inline.go)
	enc    *Enc
	pc     []Term
	regs   map[ssa.Value]Value
	cells  map[ssa.Value]Value
	heap   map[string]Term
	prefEp map[string]int // havocked prefixes -> epoch
	epoch  int
	hwm    Term
	defers []deferred
	prev   *ssa.BasicBlock
	inLoop map[*ssa.BasicBlock]bool
	unroll map[*ssa.BasicBlock]int
	decr   map[*ssa.BasicBlock]Term
	rangePos map[ssa.Value]Term // Range instr -> current position
	promoted map[ssa.Value]Term // local cells whose address escaped: now heap objects
	lastRead map[string]Term    // guarded field|owner -> critical-section counter at the last read
	inAxiom bool
	allocSeq map[ssa.Value]int // order in which local cells were (last) allocated
	seq     int
	dead   bool
	trace  []string
}

func (s *State) clone() *State {
	n := &State{enc: s.enc, epoch: s.epoch, hwm: s.hwm, prev: s.prev}
	n.pc = append([]Term(nil), s.pc...)
	n.regs = make(map[ssa.Value]Value, len(s.regs))
	for k, v := range s.regs {
		n.regs[k] = v
	}
	n.cells = make(map[ssa.Value]Value, len(s.cells))
	for k, v := range s.cells {
		n.cells[k] = v
	}
	n.heap = make(map[string]Term, len(s.heap))
	for k, v := range s.heap {
		n.heap[k] = v
	}
	n.prefEp = make(map[string]int, len(s.prefEp))
	for k, v := range s.prefEp {
		n.prefEp[k] = v
	}
	n.defers = append([]deferred(nil), s.defers...)
	n.inLoop = make(map[*ssa.BasicBlock]bool, len(s.inLoop))
	for k, v := range s.inLoop {
		n.inLoop[k] = v
	}
	n.unroll = make(map[*ssa.BasicBlock]int, len(s.unroll))
	for k, v := range s.unroll {
		n.unroll[k] = v
	}
	n.decr = make(map[*ssa.BasicBlock]Term, len(s.decr))
	for k, v := range s.decr {
		n.decr[k] = v
	}
	n.rangePos = make(map[ssa.Value]Term, len(s.rangePos))
	for k, v := range s.rangePos {
		n.rangePos[k] = v
	}
	n.seq = s.seq
	n.allocSeq = make(map[ssa.Value]int, len(s.allocSeq))
	for k, v := range s.allocSeq {
		n.allocSeq[k] = v
	}
	n.lastRead = make(map[string]Term, len(s.lastRead))
	for k, v := range s.lastRead {
		n.lastRead[k] = v
	}
	n.promoted = make(map[ssa.Value]Term, len(s.promoted))
	for k, v := range s.promoted {
		n.promoted[k] = v
	}
	n.trace = append([]string(nil), s.trace...)
	return n
}

// resolve redirects places in promoted local cells to the heap object they became.
func (s *State) resolve(p *Place) *Place {
	if p.Kind != PLocal {
		return p
	}
	ref, ok := s.promoted[p.Cell]
	if !ok {
		return p
	}
	ct := cellType(p.Cell)
	base := "C_" + typeKey(ct)
	if _, isStruct := ct.Underlying().(*types.Struct); isStruct {
		base = "H_" + typeKey(ct)
	}
	// walk the field path with Place.field so that nested named structs become sub-objects,
	// exactly as for objects that were heap-allocated from the start
	hp := &Place{Kind: PHeap, Typ: ct, Prefix: base, Obj: ref}
	for _, comp := range strings.Split(strings.TrimPrefix(p.Path, "."), ".") {
		if comp == "" {
			continue
		}
		st, ok := hp.Typ.Underlying().(*types.Struct)
		if !ok {
			return &Place{Kind: PHeap, Typ: p.Typ, Prefix: base + p.Path, Obj: ref}
		}
		idx := -1
		for i := 0; i < st.NumFields(); i++ {
			if st.Field(i).Name() == comp {
				idx = i
			}
		}
		if idx < 0 {
			return &Place{Kind: PHeap, Typ: p.Typ, Prefix: base + p.Path, Obj: ref}
		}
		hp = hp.field(idx)
	}
	return hp
}

func cellType(c ssa.Value) types.Type {
	return c.Type().Underlying().(*types.Pointer).Elem()
}

// promote turns a pointer to a whole local cell into a heap reference (the address escapes).
func (s *State) promote(v Value) Value {
	if v.Place == nil || v.Place.Kind != PLocal {
		return v
	}
	p := v.Place
	if ref, ok := s.promoted[p.Cell]; ok {
		if p.Lo != 0 || p.Path != "" {
			hp := s.resolve(p)
			if named, ok := hp.Typ.(*types.Named); ok && hp.Kind == PHeap && strings.HasPrefix(hp.Prefix, "H_"+typeKey(named)) {
				return Value{Typ: v.Typ, L: []Term{hp.Obj}}
			}
			return Value{Typ: v.Typ, L: []Term{I(0)}, Place: hp}
		}
		return Value{Typ: v.Typ, L: []Term{ref}}
	}
	if p.Lo != 0 || p.Path != "" {
		// the address of a field escapes: the whole local becomes a heap object and the pointer
		// designates the field inside it
		s.promote(Value{Typ: p.Cell.Type(), L: []Term{I(0)}, Place: &Place{Kind: PLocal, Typ: cellType(p.Cell), Cell: p.Cell}})
		hp := s.resolve(p)
		if named, ok := hp.Typ.(*types.Named); ok && hp.Kind == PHeap && strings.HasPrefix(hp.Prefix, "H_"+typeKey(named)) {
			// a sub-object: an ordinary reference
			return Value{Typ: v.Typ, L: []Term{hp.Obj}}
		}
		return Value{Typ: v.Typ, L: []Term{I(0)}, Place: hp}
	}
	cur, ok := s.cells[p.Cell]
	if !ok {
		panic(unsupported("escape of unknown cell"))
	}
	if cur.Place != nil || cur.Clo != nil {
		panic(unsupported("escape of a cell holding a local pointer/closure"))
	}
	ref := s.alloc()
	s.promoted[p.Cell] = ref
	hp := s.resolve(p)
	s.store(hp, Value{Typ: p.Typ, L: cur.L})
	s.zeroOnceState(p.Typ, ref)
	return Value{Typ: v.Typ, L: []Term{ref}}
}

// zeroOnceState: a sync.Once embedded by value in a newly allocated struct has not run yet
// (ghost state 0). Mutexes need no such fact: acquiring a lock assumes it was free.
func (s *State) zeroOnceState(t types.Type, ref Term) {
	named, ok := t.(*types.Named)
	if !ok {
		return
	}
	stt, ok := named.Underlying().(*types.Struct)
	if !ok {
		return
	}
	for i := 0; i < stt.NumFields(); i++ {
		ft, ok := stt.Field(i).Type().(*types.Named)
		if !ok || ft.Obj().Pkg() == nil || ft.Obj().Pkg().Path() != "sync" || ft.Obj().Name() != "Once" {
			continue
		}
		name := "LK_H_" + typeKey(ft)
		la := s.heapArr(name, SArr)
		s.setHeap(name, Store(la, s.enc.subObj("H_"+typeKey(named)+"."+stt.Field(i).Name(), ref), I(0)))
	}
}

func (s *State) assume(t Term) {
	if t.S == "true" {
		return
	}
	s.pc = append(s.pc, t)
}

// heapArr returns the current term for a heap array, creating it lazily.
func (s *State) heapArr(name, sort string) Term {
	if t, ok := s.heap[name]; ok {
		return t
	}
	t := s.enc.version(name, sort, epochFor(name, s.epoch, s.prefEp))
	s.heap[name] = t
	return t
}

func epochFor(name string, epoch int, pref map[string]int) int {
	ep := epoch
	for p, e := range pref {
		if strings.HasPrefix(name, p) && e > ep {
			ep = e
		}
	}
	return ep
}

// mergeEp describes a heap epoch created at a join point of two states with different havoc
// histories: a version at this epoch is ite(g, version on side a, version on side b).
type mergeEp struct {
	g              Term
	aEpoch, bEpoch int
	aPref, bPref   map[string]int
}

// version declares the unknown ("base") version of heap array name at epoch ep, with the facts
// every such version satisfies.
func (e *Enc) version(name, sort string, ep int) Term {
	if kl, ok := e.keepLockEpochs[ep]; ok && (strings.HasPrefix(name, "LK_") || strings.HasPrefix(name, "LKE_")) {
		// lock state survives this havoc: same version as before it
		return e.version(name, sort, epochFor(name, kl.aEpoch, kl.aPref))
	}
	vn := fmt.Sprintf("%s@e%d", sanitizeHeap(name), ep)
	if _, seen := e.decls[vn]; seen {
		return Term{vn, sort}
	}
	t := e.declare(vn, sort)
	// well-typed memory: every reference stored in this (unknown) heap version is below the
	// allocation mark of the moment the version came into being
	if lv, isRef := e.refLeaf[name]; isRef {
		if h, ok := e.epochHwm[ep]; ok {
			e.addAxiom(rangeAxiom(t, lv, sort, "", "", h.S)) // sub-object references are negative
		}
	}
	// slice/string headers and sized integers are in range
	if li, ok := e.leafInfo[name]; ok {
		switch {
		case li.lo != "" || li.hi != "":
			e.addAxiom(rangeAxiom(t, li.levels, sort, li.lo, li.hi, ""))
		case strings.HasSuffix(name, ".cap") && li.levels >= 1:
			ln := e.version(strings.TrimSuffix(name, ".cap")+".len", sort, ep)
			if li.levels == 1 {
				e.addAxiom(fmt.Sprintf("(forall ((x Int)) (! (<= (select %s x) (select %s x)) :pattern ((select %s x))))", ln.S, t.S, t.S))
			} else if li.levels == 2 {
				e.addAxiom(fmt.Sprintf("(forall ((x Int) (y Int)) (! (<= (select (select %s x) y) (select (select %s x) y)) :pattern ((select (select %s x) y))))", ln.S, t.S, t.S))
			}
		}
	}
	if ep == 0 && e.noLocksAtEntry && strings.HasPrefix(name, "LK_") && sort == SArr {
		e.addAxiom(fmt.Sprintf("(forall ((x Int)) (! (= (select %s x) 0) :pattern ((select %s x))))", t.S, t.S))
	}
	// loop havoc: the loop frame relates this version to the entry version
	if e.loopEpochs[ep] && e.frameHook != nil {
		e.frameHook(name, t, sort)
	}
	if e.entryFrames[ep] != nil {
		e.entryFrameAxiom(name, t, sort, ep)
	}
	// join of different havoc histories
	if me, ok := e.mergeEpochs[ep]; ok {
		ta := e.version(name, sort, epochFor(name, me.aEpoch, me.aPref))
		tb := e.version(name, sort, epochFor(name, me.bEpoch, me.bPref))
		e.addAxiom(Eq(t, Ite(me.g, ta, tb)).S)
	}
	return t
}

// rangeAxiom: forall cells of heap array t: lo <= v (<= hi) (< strictHi)
func rangeAxiom(t Term, levels int, sort, lo, hi, strictHi string) string {
	var sel, binder string
	switch {
	case levels == 1 && sort == SArr:
		sel, binder = fmt.Sprintf("(select %s x)", t.S), "((x Int))"
	case levels == 2 && sort == arrSort(SArr):
		sel, binder = fmt.Sprintf("(select (select %s x) y)", t.S), "((x Int) (y Int))"
	default:
		return "true"
	}
	var cs []string
	if lo != "" {
		cs = append(cs, fmt.Sprintf("(<= %s %s)", IStr(lo).S, sel))
	}
	if hi != "" {
		cs = append(cs, fmt.Sprintf("(<= %s %s)", sel, IStr(hi).S))
	}
	if strictHi != "" {
		cs = append(cs, fmt.Sprintf("(< %s %s)", sel, strictHi))
	}
	body := cs[0]
	if len(cs) > 1 {
		body = "(and " + strings.Join(cs, " ") + ")"
	}
	if strictHi != "" {
		// only objects that exist when the version comes into being are constrained: the fields of
		// a not-yet-allocated object are whatever its allocation (by this function or, in the same
		// heap version, by a callee that modifies nothing else) makes them
		body = fmt.Sprintf("(=> (< x %s) %s)", strictHi, body)
	}
	return fmt.Sprintf("(forall %s (! %s :pattern (%s)))", binder, body, sel)
}

type leafReg struct {
	levels int
	lo, hi string
}

// registerRefLeaves records which heap arrays below prefix hold references (pointers, maps,
// channels, slice backing arrays) for values of type t.
func (e *Enc) registerRefLeaves(prefix string, t types.Type, levels int) {
	key := fmt.Sprintf("%s|%d", prefix, levels)
	if e.refDone[key] {
		return
	}
	e.refDone[key] = true
	for _, l := range flatten(t) {
		name := prefix + l.Suffix
		switch {
		case l.Typ == refMarker:
			e.refLeaf[name] = levels
		case strings.HasSuffix(l.Suffix, ".len") || strings.HasSuffix(l.Suffix, ".off"):
			e.leafInfo[name] = leafReg{levels: levels, lo: "0"}
		case strings.HasSuffix(l.Suffix, ".cap"):
			e.leafInfo[name] = leafReg{levels: levels}
		case l.Typ != nil && l.Sort == SInt:
			if lo, hi, ok := intRange(l.Typ); ok {
				if bits, _, _ := intBits(l.Typ); bits < 64 {
					e.leafInfo[name] = leafReg{levels: levels, lo: lo, hi: hi}
				}
			}
		}
	}
}

func sanitizeHeap(s string) string { return sanitize(s) }

func (s *State) setHeap(name string, t Term) {
	// name the new version to keep terms small
	n := s.enc.fresh(name, t.Sort)
	s.assume(Eq(n, t))
	s.heap[name] = n
}

// havocPrefix gives fresh versions to every heap array whose name starts with prefix
// (including ones not yet materialised).
func (s *State) havocPrefix(prefix string) int {
	s.enc.epochCtr++
	ep := s.enc.epochCtr
	for k := range s.heap {
		if strings.HasPrefix(k, prefix) {
			delete(s.heap, k)
		}
	}
	s.prefEp[prefix] = ep
	// whoever changed these locations may also have allocated
	nh := s.enc.fresh("hwm", SInt)
	s.assume(Ge(nh, s.hwm))
	s.hwm = nh
	s.enc.epochHwm[ep] = nh
	return ep
}

// havocAllKeepLocks: everything other goroutines (or an unknown callee that is assumed to
// balance its locking) may change is forgotten; the set of locks held by *this* goroutine
// (ghost LK_/LKE_ arrays) is kept.
func (s *State) havocAllKeepLocks() {
	prevEpoch, prevPref := s.epoch, copyIntMap(s.prefEp)
	kept := map[string]Term{}
	for n, t := range s.heap {
		if strings.HasPrefix(n, "LK_") || strings.HasPrefix(n, "LKE_") {
			kept[n] = t
		}
	}
	s.havocAll()
	s.enc.keepLockEpochs[s.epoch] = &mergeEp{aEpoch: prevEpoch, aPref: prevPref}
	for n, t := range kept {
		s.heap[n] = t
	}
}

func (s *State) havocAll() {
	var before *State
	if s.enc.afterHavoc != nil {
		before = s.clone()
	}
	s.enc.epochCtr++
	s.epoch = s.enc.epochCtr
	s.heap = map[string]Term{}
	s.prefEp = map[string]int{}
	// hwm may grow
	nh := s.enc.fresh("hwm", SInt)
	s.assume(Ge(nh, s.hwm))
	s.hwm = nh
	s.enc.epochHwm[s.epoch] = nh
	// package invariants over initialise-once globals hold at all times after init (ginv.go)
	if s.enc.afterHavoc != nil {
		s.enc.afterHavoc(s, before)
	}
}

func (s *State) alloc() Term {
	r := s.enc.fresh("new", SInt)
	s.assume(Eq(r, s.hwm))
	nh := s.enc.fresh("hwm", SInt)
	s.assume(Eq(nh, Add(s.hwm, I(1))))
	s.hwm = nh
	return r
}

// ---------------------------------------------------------------------------
// zero values, fresh values

func (e *Enc) zero(t types.Type) Value {
	ls := flatten(t)
	v := Value{Typ: t}
	for _, l := range ls {
		switch {
		case l.Sort == SInt:
			v.L = append(v.L, I(0))
		case l.Sort == SBool:
			v.L = append(v.L, FalseT)
		case strings.HasPrefix(l.Sort, "(Array Int "):
			es := elemSortOf(l.Sort)
			z := "0"
			if es == SBool {
				z = "false"
			}
			v.L = append(v.L, Term{fmt.Sprintf("((as const %s) %s)", l.Sort, z), l.Sort})
		default:
			panic("zero: sort " + l.Sort)
		}
	}
	return v
}

func (s *State) freshValue(hint string, t types.Type) Value {
	ls := flatten(t)
	v := Value{Typ: t}
	for _, l := range ls {
		c := s.enc.fresh(hint+l.Suffix, l.Sort)
		v.L = append(v.L, c)
	}
	s.assumeWellTyped(v)
	return v
}

// assumeWellTyped adds range facts for sized integers, non-negative lengths, etc.
func (s *State) assumeWellTyped(v Value) {
	ls := flatten(v.Typ)
	for i, l := range ls {
		if i >= len(v.L) {
			break
		}
		s.assumeLeaf(l, v.L[i])
	}
	switch v.Typ.Underlying().(type) {
	case *types.Slice:
		// 0<=off, 0<=len<=cap
		s.assume(And(Ge(v.L[1], I(0)), Ge(v.L[2], I(0)), Le(v.L[2], v.L[3])))
	}
	if isString(v.Typ) {
		s.assume(And(Ge(v.L[1], I(0)), Ge(v.L[2], I(0))))
	}
}

func (s *State) assumeLeaf(l Leaf, t Term) {
	if l.Typ != nil && l.Sort == SInt {
		if lo, hi, ok := intRange(l.Typ); ok {
			if isLiteral(t) {
				return
			}
			s.assume(And(Le(IStr(lo), t), Le(t, IStr(hi))))
		}
	}
	if strings.HasSuffix(l.Suffix, ".len") || strings.HasSuffix(l.Suffix, ".off") {
		if !isLiteral(t) {
			s.assume(Ge(t, I(0)))
		}
	}
	if strings.HasSuffix(l.Suffix, ".cap") {
		// cap >= len is added by slice-level facts
	}
}

func isLiteral(t Term) bool {
	if t.S == "" {
		return false
	}
	c := t.S[0]
	return (c >= '0' && c <= '9') || strings.HasPrefix(t.S, "(- ")
}

// ---------------------------------------------------------------------------
// Place load/store

func (s *State) load(p *Place) Value {
	p = s.resolve(p)
	ls := flatten(p.Typ)
	v := Value{Typ: p.Typ}
	switch p.Kind {
	case PLocal:
		cv, ok := s.cells[p.Cell]
		if !ok {
			panic(fmt.Sprintf("load from unknown cell %v", p.Cell.Name()))
		}
		v.L = append(v.L, cv.L[p.Lo:p.Lo+len(ls)]...)
		if p.Lo == 0 && len(ls) == len(cv.L) {
			v.Place = cv.Place
			v.Clo = cv.Clo
		}
		return v
	case PHeap:
		for _, l := range ls {
			a := s.heapArr(p.Prefix+l.Suffix, arrSort(l.Sort))
			t := Select(a, p.Obj)
			v.L = append(v.L, t)
		}
	case PElem:
		for _, l := range ls {
			a := s.heapArr(p.Prefix+l.Suffix, arrSort(arrSort(l.Sort)))
			t := s.enc.elemAt(Select(a, p.Arr), p.Off, p.Idx)
			v.L = append(v.L, t)
		}
	case PGlobal:
		for _, l := range ls {
			t := s.heapArr(p.Prefix+l.Suffix, l.Sort)
			v.L = append(v.L, t)
		}
		if _, isIface := p.Typ.Underlying().(*types.Interface); isIface && isErrorSentinel(p.Prefix) {
			// exported error sentinels of the standard library are non-nil and never reassigned
			s.assume(Not(Eq(v.L[0], I(0))))
			s.enc.assumedUsed["stdlib error sentinel "+p.Prefix[2:]+" is non-nil"] = true
		}
	}
	s.assumeWellTyped(v)
	s.assumeRefs(v) // well-typed memory: every stored reference is below the allocation mark
	return v
}

func (s *State) store(p *Place, v Value) {
	ls := flatten(p.Typ)
	if len(v.L) != len(ls) {
		panic(fmt.Sprintf("store: leaf mismatch %d vs %d for %v", len(v.L), len(ls), p.Typ))
	}
	p = s.resolve(p)
	if v.Place != nil && v.Place.Kind == PLocal {
		whole := p.Kind == PLocal && p.Lo == 0 && len(ls) == len(s.cells[p.Cell].L)
		if !whole {
			v = s.promote(v)
		}
	}
	switch p.Kind {
	case PLocal:
		cv := s.cells[p.Cell]
		nl := append([]Term(nil), cv.L...)
		copy(nl[p.Lo:], v.L)
		nv := Value{Typ: cv.Typ, L: nl}
		if p.Lo == 0 && len(ls) == len(cv.L) {
			nv.Place = v.Place
			nv.Clo = v.Clo
		} else if v.Place != nil || v.Clo != nil {
			// storing a translation-time pointer into part of a struct cell: unsupported
			panic(unsupported("store of local pointer/closure into struct field"))
		}
		s.cells[p.Cell] = nv
	case PHeap:
		if v.Place != nil && v.Place.Kind == PLocal {
			panic(unsupported("address of local escapes to heap"))
		}
		for i, l := range ls {
			name := p.Prefix + l.Suffix
			a := s.heapArr(name, arrSort(l.Sort))
			s.setHeap(name, Store(a, p.Obj, v.L[i]))
		}
	case PElem:
		if v.Place != nil && v.Place.Kind == PLocal {
			panic(unsupported("address of local escapes to heap"))
		}
		for i, l := range ls {
			name := p.Prefix + l.Suffix
			a := s.heapArr(name, arrSort(arrSort(l.Sort)))
			s.setHeap(name, Store(a, p.Arr, Store(Select(a, p.Arr), Add(p.Off, p.Idx), v.L[i])))
		}
	case PGlobal:
		for i, l := range ls {
			s.heap[p.Prefix+l.Suffix] = v.L[i]
		}
	}
}

type unsupported string

func (u unsupported) Error() string { return "out of subset: " + string(u) }

// placeOfPtr gives the place a pointer value points to.
func (s *State) placeOfPtr(v Value) *Place {
	if v.Place != nil {
		return v.Place
	}
	pt, ok := v.Typ.Underlying().(*types.Pointer)
	if !ok {
		panic(fmt.Sprintf("placeOfPtr: not a pointer: %v", v.Typ))
	}
	return s.placeOfRef(v.L[0], pt.Elem())
}

func (s *State) placeOfRef(ref Term, elem types.Type) *Place {
	switch u := elem.Underlying().(type) {
	case *types.Struct:
		s.enc.registerRefLeaves("H_"+typeKey(elem), elem, 1)
		return &Place{Kind: PHeap, Typ: elem, Prefix: "H_" + typeKey(elem), Obj: ref}
	case *types.Array:
		s.enc.registerRefLeaves("E_"+typeKey(u.Elem()), u.Elem(), 2)
		// pointer to array: the ref *is* the backing array id; no place for the whole array
		return &Place{Kind: PElem, Typ: elem, Prefix: "E_" + typeKey(u.Elem()), Arr: ref, Off: I(0), Idx: I(0)}
	default:
		s.enc.registerRefLeaves("C_"+typeKey(elem), elem, 1)
		return &Place{Kind: PHeap, Typ: elem, Prefix: "C_" + typeKey(elem), Obj: ref}
	}
}

func (p *Place) field(idx int) *Place {
	st := p.Typ.Underlying().(*types.Struct)
	f := st.Field(idx)
	np := *p
	np.Typ = f.Type()
	switch p.Kind {
	case PLocal:
		lo, _ := fieldRange(st, idx)
		np.Lo = p.Lo + lo
		np.Path = p.Path + "." + f.Name()
	case PHeap:
		// a nested struct of a named type inside a heap object is a sub-object with its own
		// reference sub_<path>(obj): &x.f then is an ordinary *T pointer whose fields live in
		// the same H_T.* arrays as those of separately allocated T objects
		if named, ok := f.Type().(*types.Named); ok && curEnc != nil {
			if _, isStruct := named.Underlying().(*types.Struct); isStruct {
				return &Place{Kind: PHeap, Typ: f.Type(), Prefix: "H_" + typeKey(f.Type()), Obj: curEnc.subObj(p.Prefix+"."+f.Name(), p.Obj)}
			}
		}
		np.Prefix = p.Prefix + "." + f.Name()
	default:
		np.Prefix = p.Prefix + "." + f.Name()
	}
	return &np
}

var curEnc *Enc

// subObj: reference of the sub-object at field path `path` of object obj. Sub-object references
// are negative, injective in obj, and distinct for distinct paths.
func (e *Enc) subObj(path string, obj Term) Term {
	fn := "sub_" + sanitize(path)
	if _, ok := e.funs[fn]; !ok {
		e.declareFun(fn, []string{"Int"}, "Int")
		e.declareFun("inv_"+fn, []string{"Int"}, "Int")
		e.declareFun("subtag", []string{"Int"}, "Int")
		e.declareFun("subowner", []string{"Int"}, "Int")
		e.nsub++
		e.addAxiom(fmt.Sprintf("(forall ((x Int)) (! (and (< (%s x) 0) (= (inv_%s (%s x)) x) (= (subowner (%s x)) x) (= (subtag (%s x)) %d)) :pattern ((%s x))))", fn, fn, fn, fn, fn, e.nsub, fn))
	}
	return app(SInt, fn, obj)
}
