package main

import (
	"fmt"
	"go/constant"
	"go/token"
	"go/types"

	"golang.org/x/tools/go/ssa"
)

// native: assumed contracts of library functions that need Go-side support
// (higher-order arguments, constant-string arguments). All are part of the trusted base
// and are listed in evidence when used.
type native struct {
	doc      string
	pure     bool
	prefixes []string
	havocAll bool
	modRecv  bool
	apply    func(fv *FuncVerifier, st *State, cc *ssa.CallCommon, args []Value, pos token.Pos) Value
}

var natives map[string]*native

func nativeSpec(name string) *native {
	if natives == nil {
		initNatives()
	}
	return natives[name]
}

func constStringArg(v ssa.Value) (string, bool) {
	if c, ok := v.(*ssa.Const); ok && c.Value != nil && c.Value.Kind() == constant.String {
		return constant.StringVal(c.Value), true
	}
	return "", false
}

func initNatives() {
	natives = map[string]*native{}
	natives["sort.Search"] = &native{
		doc:  "assumed: 0<=r<=n; (r>0 ==> !f(r-1)); (r<n ==> f(r)); if f is monotone on [0,n) then r is the least index with f true; f is called only with arguments in [0,n)",
		pure: true,
		apply: func(fv *FuncVerifier, st *State, cc *ssa.CallCommon, args []Value, pos token.Pos) Value {
			n := args[0].L[0]
			clo := args[1].Clo
			r := fv.enc.fresh("search", SInt)
			st.assume(And(Le(I(0), r), Le(r, n)))
			if fv.fc.NoPanic {
				// sort.Search with negative n simply returns 0; nothing to prove
			}
			if clo == nil {
				return intVal(r)
			}
			P, preP, ok := fv.closurePredicate(st, clo)
			if !ok {
				return intVal(r)
			}
			// precondition of the closure on its whole call range
			i := Term{"i!s", SInt}
			j := Term{"j!s", SInt}
			if preP != nil {
				g := Forall([]string{"i!s"}, Implies(And(Le(I(0), i), Lt(i, n)), preP(i)))
				fv.callIdx["sort.Search$pre"]++
				fv.addOb(st, "pre", fmt.Sprintf("pre:%s#%d(sort.Search range)", shortName(clo.Fn.String()), fv.callIdx["sort.Search$pre"]), g, "closure precondition on [0,n)", pos)
				st.assume(g)
			}
			st.assume(Implies(Gt(r, I(0)), Not(P(Sub(r, I(1))))))
			st.assume(Implies(Lt(r, n), P(r)))
			mono := Forall([]string{"i!s", "j!s"}, Implies(And(Le(I(0), i), Le(i, j), Lt(j, n), P(i)), P(j)))
			least := And(
				Forall([]string{"i!s"}, Implies(And(Le(I(0), i), Lt(i, r)), Not(P(i)))),
				Forall([]string{"i!s"}, Implies(And(Le(r, i), Lt(i, n)), P(i))))
			st.assume(Implies(mono, least))
			return intVal(r)
		},
	}
	natives["strings.ContainsRune"] = &native{
		doc:  "assumed: for a constant ASCII string s, ContainsRune(s,r) <==> r is one of its bytes",
		pure: true,
		apply: func(fv *FuncVerifier, st *State, cc *ssa.CallCommon, args []Value, pos token.Pos) Value {
			if s, ok := constStringArg(cc.Args[0]); ok && isASCII(s) {
				var ds []Term
				for i := 0; i < len(s); i++ {
					ds = append(ds, Eq(args[1].L[0], I(int64(s[i]))))
				}
				return boolVal(Or(ds...))
			}
			return boolVal(fv.enc.fresh("containsrune", SBool))
		},
	}
	natives["strings.ContainsAny"] = &native{
		doc:  "assumed: pure, unspecified result",
		pure: true,
		apply: func(fv *FuncVerifier, st *State, cc *ssa.CallCommon, args []Value, pos token.Pos) Value {
			return boolVal(fv.enc.fresh("containsany", SBool))
		},
	}
	hasPrefixSuffix := func(suffix bool) *native {
		return &native{
			doc:  "assumed: HasPrefix/HasSuffix(s, c) for constant c <==> len(s)>=len(c) and the bytes match",
			pure: true,
			apply: func(fv *FuncVerifier, st *State, cc *ssa.CallCommon, args []Value, pos token.Pos) Value {
				c, ok := constStringArg(cc.Args[1])
				if !ok {
					return boolVal(fv.enc.fresh("hasaffix", SBool))
				}
				s := args[0]
				fv.enc.declareFun("sbyte", []string{"Int", "Int"}, "Int")
				cs := []Term{Ge(s.L[2], I(int64(len(c))))}
				for i := 0; i < len(c); i++ {
					var at Term
					if suffix {
						at = Add(s.L[1], Add(Sub(s.L[2], I(int64(len(c)))), I(int64(i))))
					} else {
						at = Add(s.L[1], I(int64(i)))
					}
					cs = append(cs, Eq(app(SInt, "sbyte", s.L[0], at), I(int64(c[i]))))
				}
				return boolVal(And(cs...))
			},
		}
	}
	natives["strings.HasPrefix"] = hasPrefixSuffix(false)
	natives["strings.HasSuffix"] = hasPrefixSuffix(true)
	initLockNatives()
	// walk.Descriptors(file, fn): calls fn synchronously on this goroutine, zero or more times,
	// and returns the first non-nil error of fn (or nil). Nothing else is modified.
	natives["github.com/bufbuild/protocompile/walk.Descriptors"] = &native{
		doc:      "assumed: walk.Descriptors calls its callback synchronously on the calling goroutine (any number of times) and returns the first non-nil error the callback returned, or nil; it modifies nothing itself",
		havocAll: false,
		apply: func(fv *FuncVerifier, st *State, cc *ssa.CallCommon, args []Value, pos token.Pos) Value {
			clo := args[1].Clo
			sig := cc.Signature()
			if clo == nil {
				fv.enc.havocAllCalls["walk.Descriptors with unknown callback"] = true
				st.havocAll()
				return fv.freshResult(st, "walk", sig)
			}
			c := fv.db.Funcs[clo.Fn.String()]
			if c == nil {
				fv.enc.havocAllCalls["walk.Descriptors callback "+shortName(clo.Fn.String())+" without contract"] = true
				st.havocAll()
				return fv.freshResult(st, "walk", sig)
			}
			// the callback's parameter is an arbitrary descriptor
			var pn []string
			var cargs []Value
			for _, p := range clo.Fn.Params {
				pn = append(pn, p.Name())
				v := st.freshValue(p.Name(), p.Type())
				cargs = append(cargs, v)
			}
			// first call: precondition must hold now; later calls: it must be re-established by the
			// callback itself (its postcondition is assumed after the havoc), checked on the
			// callback's own contract: requires must follow from ensures + frame. We check the
			// precondition before and after one abstract application.
			// zero or more calls: check the precondition, havoc what the callback may modify (no
			// postcondition is assumed: there may have been no call), then check that the
			// precondition is stable under that havoc (so every later call is also fine)
			preWalk := st.clone()
			fv.ccMode = ccHavocOnly
			fv.applyContract(st, c, clo.Fn.String(), pn, cargs, clo.Fn.Signature, &calleeInfo{fn: clo.Fn, clo: clo}, pos)
			var cargs2 []Value
			for _, p := range clo.Fn.Params {
				cargs2 = append(cargs2, st.freshValue(p.Name(), p.Type()))
			}
			fv.ccMode = ccPreOnly
			fv.applyContract(st, c, clo.Fn.String(), pn, cargs2, clo.Fn.Signature, &calleeInfo{fn: clo.Fn, clo: clo}, pos)
			fv.ccMode = ccNormal
			// ghost: the last file walked (contracts can demand that a check/commit really walks
			// the file it is given)
			if len(args[0].L) == 2 {
				st.heap["GH_walked"] = args[0].L[1]
			}
			res := fv.freshResult(st, "walk", sig)
			// the callback's result type and the walk's are both error: what accumulates over the
			// calls holds of the walk
			fv.assumeAccum(st, preWalk, c, &calleeInfo{fn: clo.Fn, clo: clo}, res)
			return res
		},
	}
}

func isASCII(s string) bool {
	for i := 0; i < len(s); i++ {
		if s[i] >= 128 {
			return false
		}
	}
	return true
}

// closurePredicate turns a pure closure with contract "ensures result == E" (or result <==> E)
// into a logical predicate over its single int parameter, evaluated in the current state.
func (fv *FuncVerifier) closurePredicate(st *State, clo *Closure) (P func(Term) Term, pre func(Term) Term, ok bool) {
	c := fv.db.Funcs[clo.Fn.String()]
	if c == nil || !c.Pure || len(clo.Fn.Params) != 1 {
		return nil, nil, false
	}
	var def SExpr
	for _, e := range c.Ensures {
		if b, isB := e.E.(*SBinary); isB && (b.Op == "==" || b.Op == "<==>") {
			if id, isId := b.X.(*SIdent); isId && id.Name == "result" {
				def = b.Y
			}
		}
	}
	if def == nil {
		return nil, nil, false
	}
	pname := clo.Fn.Params[0].Name()
	mk := func(e SExpr) func(Term) Term {
		return func(arg Term) Term {
			vars := map[string]Value{pname: {Typ: clo.Fn.Params[0].Type(), L: []Term{arg}}}
			for i, fvv := range clo.Fn.FreeVars {
				b := clo.Bindings[i]
				if b.Place != nil {
					vars[fvv.Name()] = st.load(b.Place)
				} else {
					vars[fvv.Name()] = b
				}
			}
			env := &Env{fv: fv, enc: fv.enc, st: st, vars: vars, pkg: fv.pkgOf(), nb: &fv.enc.nfresh}
			return env.evalB(e)
		}
	}
	P = mk(def)
	if len(c.Requires) > 0 {
		var conj SExpr
		for _, r := range c.Requires {
			if conj == nil {
				conj = r.E
			} else {
				conj = &SBinary{"&&", conj, r.E}
			}
		}
		pre = mk(conj)
	}
	fv.enc.assumedUsed["closure "+shortName(clo.Fn.String())+" used as logical predicate via its verified contract"] = true
	_ = types.Typ
	return P, pre, true
}
