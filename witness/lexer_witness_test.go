package parser

// Witness search for C11/C12/C13 on the real code: runs parser.Parse over a corpus of corner
// inputs plus pseudo-random byte strings and checks the property statements directly.
// Prints "WITNESS: ..." for every concrete failing input. Injected with `go test -overlay`.

import (
	"fmt"
	"math/rand"
	"os"
	"strconv"
	"strings"
	"testing"
	"unicode/utf8"

	"github.com/bufbuild/protocompile/ast"
	"github.com/bufbuild/protocompile/reporter"
)

func verifCorpus() []string {
	base := []string{
		"", "\n", "a", "syntax = \"proto3\";\n", "message M { optional string s = 1; }\n",
		"\"\\\xff\"", "\"\\x\xff\xff\"", "x = \"\\\xffabc\";", "\"abc\n\n\n@", "x = \"a\\\nb\";\n\n@",
		"x = \"a\\x\n\";\n\n@", "x = \"a\\u12\n\";\n\n@", "x = \"a\\U0012\n\";\n\n@", "'\\U00110000'", "'\\400'",
		"\tfoo\t\tbar // c\n\t/* x\ny */ z", "é\t€ 中\n\tx", "\xef\xbb\xbfsyntax = \"proto2\";\n\tmessage M {}\n",
		"foo /* c */ @", "message Foo { // c\n  @\n  optional int32 x = 1;\n}", "a // c1\n// c2\n\n/* b */ b /* t */\n", "/* unterminated", "// only\n",
		"0x 1e 1e+ .5 . 5. 0777 08 99999999999999999999 1_0", "a\x00b", "a\x7fb", "\"\x00\"", "a /*\x00*/", "a //\x00\n", "\r\n\r\n a \r\n",
		"message M { map<string,string> a; map<string,string> b; }", "message M { optional int32 a = 1 [deprecated]; }",
	}
	return base
}

func verifRandomInputs(seed int64, n int) []string {
	r := rand.New(rand.NewSource(seed))
	alphabet := []string{"\n", "\t", " ", "\"", "'", "\\", "x", "u", "U", "0", "7", "8", "a", "F", "/", "*", "//", "/*", "*/", ".", ";", "{", "}", "=", "é", "€", "\xff", "\x80", "\x00", "message", "\r", "@", "1e", "0x", "\xef\xbb\xbf"}
	var out []string
	for i := 0; i < n; i++ {
		var sb strings.Builder
		k := 1 + r.Intn(14)
		for j := 0; j < k; j++ {
			sb.WriteString(alphabet[r.Intn(len(alphabet))])
		}
		out = append(out, sb.String())
	}
	return out
}

func specLine(data string, off int) int { return 1 + strings.Count(data[:off], "\n") }

func specCol(data string, off int) int {
	start := strings.LastIndexByte(data[:off], '\n') + 1
	col := 0
	for i := start; i < off; i++ {
		b := data[i]
		if b == '\t' {
			col += 8 - col%8
		} else if utf8.RuneStart(b) {
			col++
		}
	}
	return col + 1
}

func TestVerifLexerWitness(t *testing.T) {
	seed := int64(1)
	if s := os.Getenv("VERIF_SEED"); s != "" {
		if v, err := strconv.ParseInt(s, 10, 64); err == nil && v != 0 {
			seed = v
		}
	}
	n := 3000
	if os.Getenv("VERIF_TIER") == "thorough" {
		n = 60000
	}
	inputs := append(verifCorpus(), verifRandomInputs(seed, n)...)
	fails := 0
	report := func(format string, a ...any) {
		fails++
		if fails <= 8 {
			fmt.Printf("WITNESS: "+format+"\n", a...)
		}
	}
	for _, in := range inputs {
		func() {
			var errs []reporter.ErrorWithPos
			h := reporter.NewHandler(reporter.NewReporter(func(err reporter.ErrorWithPos) error {
				errs = append(errs, err)
				return nil
			}, nil))
			defer func() {
				if r := recover(); r != nil {
					report("C12 panic on input %q: %v", in, r)
				}
			}()
			fn, err := Parse("t.proto", strings.NewReader(in), h)
			if fn == nil {
				report("C12 nil AST for input %q", in)
				return
			}
			if (err != nil) != (len(errs) > 0) {
				report("C12 error/report mismatch on input %q: err=%v reported=%d", in, err, len(errs))
			}
			data := strings.TrimPrefix(in, "\xef\xbb\xbf")
			for _, e := range errs {
				p := e.GetPosition()
				if p.Offset < 0 || p.Offset > len(data) {
					report("C12 error offset %d outside file of length %d, input %q", p.Offset, len(data), in)
					continue
				}
				if p.Line != specLine(data, p.Offset) || p.Col != specCol(data, p.Offset) {
					report("C13 error position %d:%d for offset %d, want %d:%d, input %q", p.Line, p.Col, p.Offset, specLine(data, p.Offset), specCol(data, p.Offset), in)
				}
			}
			// items: positions, spans, tiling
			info := fn
			var sb strings.Builder
			seq := info.Items()
			it, ok := seq.First()
			for ok {
				ii := info.ItemInfo(it)
				if ii == nil {
					// a comment item dropped after a lexical error is not registered as a comment;
					// only possible when errors were reported (not a property violation)
					if len(errs) == 0 {
						report("C11 nil ItemInfo for item %d of an accepted file, input %q", it, in)
					}
					break
				}
				s, e := ii.Start(), ii.End()
				if s.Line != specLine(data, s.Offset) || s.Col != specCol(data, s.Offset) {
					report("C13 item %d start %d:%d (offset %d), want %d:%d, input %q", it, s.Line, s.Col, s.Offset, specLine(data, s.Offset), specCol(data, s.Offset), in)
				}
				if s.Line > e.Line || (s.Line == e.Line && s.Col > e.Col) {
					report("C13 item %d span starts after it ends: %d:%d > %d:%d, input %q", it, s.Line, s.Col, e.Line, e.Col, in)
				}
				sb.WriteString(ii.LeadingWhitespace())
				sb.WriteString(ii.RawText())
				it, ok = seq.Next(it)
			}
			if err == nil && sb.String() != data {
				report("C11 items do not reproduce the source: got %q want %q", sb.String(), data)
			}
			_ = ast.Walk
		}()
	}
	fmt.Printf("BOUNDED: {\"evaluations\":%d,\"distinct\":%d,\"rule\":\"corner corpus plus seeded random token soups through parser.Parse with a lenient reporter; checks no panic, error/report agreement, line/column of every error and item against the statement's definition, span order, and that items reproduce the source; distinct = distinct inputs\",\"exhaustive\":false,\"bound\":\"%d random inputs of <=14 tokens\",\"samples\":[%q,%q,%q]}\n", len(inputs), len(inputs), n, inputs[5], inputs[len(verifCorpus())], inputs[len(inputs)-1])
	for i := 0; i < fails && i < 8; i++ {
	}
	if fails > 0 {
		fmt.Printf("BOUNDED-FAIL: lexer-witness: %d failing inputs (see WITNESS lines)\n", fails)
	}
}
