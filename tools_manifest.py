#!/usr/bin/env python3
# Regenerates MANIFEST.json from the table below (single source of truth for claims).
import json,subprocess
props=[json.loads(l) for l in open('/verif/properties.jsonl')]
ids=[p['id'] for p in props]
hooks=subprocess.run(['git','-C','/repo','log','--format=%h %s','--grep=^verif hook'],capture_output=True,text=True).stdout.strip().split('\n')
hooks=[h.split()[0] for h in hooks if h]
PROOF_NOTE="Trusted base: go/types+go/ssa build the IR of /repo's working tree faithfully; govc's VC semantics (DESIGN.md 2.3/2.4: int/int64 mathematical, sized ints wrap, heap-as-arrays with well-typed-memory axioms, no goroutines); z3 4.8.12 / z3 5.1.0 / cvc5 1.0; the assumed stdlib contracts in /verif/contracts/stdlib.spec and the native ones in govc/native.go (each listed in the evidence file of every run that uses it); contracts of callees verified under another property's check are taken as given in this one."
claims={
 "C11":dict(cat="proof",text="Contract-based proof (unbounded, all inputs) that the lexer maintains a well-formed, strictly ordered, in-bounds item table (itemsWF) and that NodeInfo.LeadingWhitespace/RawText return exactly data[prevEnd(i):offset(i)] and data[offset(i):end(j)], so consecutive items tile the source; the lexer scans the same byte slice that FileInfo stores (newLexer postcondition). NOT decided: that ast.Walk visits every token once in item order (goyacc semantic actions in proto.y.go / parser/ast.go build the tree), comment attribution to exactly one token, and that the EOF item ends at len(data).",design="4 C11",tech="contract-based deductive verification: VC generation over go/ssa + SMT (z3/cvc5)"),
 "C12":dict(cat="proof",text="Contract-based proof that the lexer (every method of protoLex and runeReader, newLexer) and ast.FileInfo's construction/query API never panic: every index, slice bound, nil dereference, explicit panic(...) (AddLine/AddToken/AddComment guards, 'unread past mark') and callee precondition is an obligation discharged from the lexer invariant lexInv for all byte sequences; every error position is produced by SourcePos under its precondition 0<=offset<=len(data) whose postcondition gives an existing line/column. NOT decided: the goyacc automaton and its semantic actions (proto.y.go), ast.New*Node constructors reached only from those actions, parser/result.go and parser/validate.go (descriptor conversion), 'returns an error exactly when one was reported' (see C08).",design="4 C12",tech="contract-based deductive verification: VC generation over go/ssa + SMT (z3/cvc5)"),
 "C13":dict(cat="proof",text="Contract-based proof against spec functions taken from the statement: SourcePos(offset).Col == 1+colspec(data,lineStart,offset) (tab to next multiple of 8, one per UTF-8 start byte) with a loop invariant and variant; Line is the unique line-table index with lines[Line-1]<=offset<lines[Line], and equals 1+nl(data,offset) whenever the line table is exact (linesExact), which the lexer invariant maintains at every function boundary (every consumed newline reaches AddLine); lemma L13_span: posAt positions are lexicographically monotone in the offset, hence NodeInfo.Start()<=End() for well-formed nodes (contracts of Start/End). Induction lemmas nl_mono, nl_const, colspec_nonneg, colspec_mono are machine-checked.",design="4 C13",tech="contract-based deductive verification: VC generation over go/ssa + SMT (z3/cvc5)"),
}
NA_DEFAULT="not yet claimed (build in progress); see DESIGN.md section 0 for the planned verdict"
na_reasons={}
try:
    na_reasons=json.load(open('/verif/na_reasons.json'))
except Exception: pass
checks=[]
for i in ids:
    if i in claims:
        c=claims[i]
        checks.append({"property_id":i,"quick_cmd":"./check %s --tier quick"%i,"thorough_cmd":"./check %s --tier thorough"%i,
          "evidence_file":"/verif/evidence/%s.json"%i,"replay_cmd_template":"./check %s --replay {path}"%i,"engine":"govc",
          "level_claimed":{"category":c["cat"],"text":c["text"],"design_ref":c["design"]},
          "level_note":c.get("note",PROOF_NOTE),"technique":c["tech"]})
m={"version":1,
 "setup_cmd":"cd /verif/govc && GOFLAGS=-mod=mod GOPROXY=off GOTOOLCHAIN=local PATH=/opt/veriftools/go1.26.8/bin:$PATH go build -o /verif/bin/govc .",
 "hooks":{"guard":"verif","enable":"contracts live in /repo/<pkg>/zz_contracts_verif.go (first line //go:build verif; comment-only, no code); govc reads them from disk on every run; `go build -tags verif ./...` compiles them as empty files","baseline_off_cmd":"cd /repo && GOPROXY=off go test -json -vet=off -count=1 -timeout 25m ./... ; cd /repo/internal/benchmarks && GOPROXY=off go test -json -vet=off -count=1 -timeout 25m ./...","source_commits":hooks,"add_only":True},
 "engines":[{"name":"govc","path":"/verif/govc","serves_properties":sorted(claims),"kind_free_text":"home-grown contract verifier for Go: go/packages + go/ssa (naive form) of /repo's working tree -> block-wise symbolic execution with state merging, loop invariants as cut points, modular calls via contracts (structured //@ comments in build-tag-guarded files) -> SMT-LIB obligations -> z3 4.8.12 / z3 5.1.0 / cvc5 1.0"}],
 "checks":checks,
 "notes":"see DESIGN.md; known_findings.json lists fixed and known findings; seeded/ holds independently produced property-breaking changes and which checks catch them",
 "not_applicable":[{"property_id":i,"reason":na_reasons.get(i,NA_DEFAULT)} for i in ids if i not in claims]}
json.dump(m,open('/verif/MANIFEST.json','w'),indent=1)
print(len(checks),"checks")
