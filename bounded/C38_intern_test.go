package intern

// Bounded/exhaustive companion of the C38 proof (labelled bounded, never counted as proved):
//  (1) the char6 tables are mutually inverse: checked for all 256 byte values on the real tables
//      (finite domain, complete) -- this discharges the precondition tablesOK() of the contracts;
//  (2) Intern/Value/Query on the real Table for all strings of length <= 2 over all 256 byte
//      values and length <= 5 over a corner alphabet: Value(Intern(s)) == s, equal ids iff equal
//      strings, Query reports presence exactly for interned or inlinable strings;
//  (3) a seeded stress run of concurrent Intern calls (schedule sampling, not exhaustive).

import (
	"strings"
	"encoding/json"
	"fmt"
	"os"
	"sync"
	"testing"
)

func TestVerifC38Bounded(t *testing.T) {
	thorough := os.Getenv("VERIF_TIER") == "thorough"
	evals := 0
	fails := map[string]int{}
	fail := func(kind, format string, a ...any) {
		fails[kind]++
		if fails[kind] <= 3 {
			fmt.Printf("BOUNDED-FAIL: %s: %s\n", kind, fmt.Sprintf(format, a...))
		}
	}
	// (1) tables
	if len(char6ToByte) != 64 || len(byteToChar6) != 256 || char6ToByte[63] != '.' {
		fail("tables", "table shapes: len(char6ToByte)=%d len(byteToChar6)=%d char6ToByte[63]=%q", len(char6ToByte), len(byteToChar6), char6ToByte[63])
	} else {
		for j := 0; j < 64; j++ {
			evals++
			if int(byteToChar6[char6ToByte[j]]) != j {
				fail("tables", "byteToChar6[char6ToByte[%d]] = %d", j, byteToChar6[char6ToByte[j]])
			}
		}
		for b := 0; b < 256; b++ {
			evals++
			if v := byteToChar6[b]; v != 0xff && (v >= 64 || int(char6ToByte[v]) != b) {
				fail("tables", "byteToChar6[%d] = %d is not the inverse of char6ToByte", b, v)
			}
		}
	}
	// (2) sequential bijection
	var strs []string
	for a := 0; a < 256; a++ {
		strs = append(strs, string([]byte{byte(a)}))
		for b := 0; b < 256; b++ {
			strs = append(strs, string([]byte{byte(a), byte(b)}))
		}
	}
	alpha := []byte{'a', 'Z', '0', '_', '.', '-', 0x00, 0xe1, 0xae, 0xff}
	var gen func(prefix []byte, n int)
	gen = func(prefix []byte, n int) {
		if len(prefix) > 2 {
			strs = append(strs, string(prefix))
		}
		if len(prefix) == n {
			return
		}
		for _, c := range alpha {
			gen(append(append([]byte(nil), prefix...), c), n)
		}
	}
	maxLen := 5
	if thorough {
		maxLen = 6
	}
	gen(nil, maxLen)
	strs = append(strs, "", "abcdef", "google.protobuf.FileDescriptorProto", "a.b.c", "abcd.", ".....", "....")
	tab := new(Table)
	byID := map[ID]string{}
	for _, s := range strs {
		evals++
		_, inl := encodeChar6(s)
		if _, present := tab.Query(s); present != inl {
			if _, seen := byID[func() ID { id, _ := tab.Query(s); return id }()]; !seen || !present {
				fail("query", "Query(%q) reports present=%v before interning (inlinable=%v)", s, present, inl)
			}
		}
		id := tab.Intern(s)
		if got := tab.Value(id); got != s {
			fail("roundtrip", "Value(Intern(%q)) = %q", s, got)
		}
		if prev, ok := byID[id]; ok && prev != s {
			fail("injective", "Intern(%q) == Intern(%q) == %d", s, prev, id)
		}
		byID[id] = s
		if id2, present := tab.Query(s); !present || id2 != id {
			fail("query", "Query(%q) after interning = %d,%v want %d,true", s, id2, present, id)
		}
		if id3 := tab.Intern(s); id3 != id {
			fail("stable", "Intern(%q) twice gives %d then %d", s, id, id3)
		}
	}
	// (2b) the []byte entry points through one re-used buffer: the table must not keep a reference
	// to the caller's bytes, so overwriting the buffer afterwards changes nothing
	{
		btab := new(Table)
		buf := make([]byte, 0, 64)
		want := map[string]ID{}
		var order []string
		for i := 0; i < 40; i++ {
			name := fmt.Sprintf("buffer-reuse-name-%d/%s", i%13, strings.Repeat("x", i%5))
			buf = append(buf[:0], name...)
			id := btab.InternBytes(buf)
			evals++
			if prev, ok := want[name]; ok && prev != id {
				fail("bytes-reuse", "InternBytes(%q) through a re-used buffer gives %d, earlier %d", name, id, prev)
			}
			for other, oid := range want {
				if other != name && oid == id {
					fail("bytes-reuse", "InternBytes(%q) through a re-used buffer gives the id %d of %q", name, id, other)
				}
			}
			if _, ok := want[name]; !ok {
				want[name] = id
				order = append(order, name)
			}
			for j := range buf { // the caller re-uses its buffer
				buf[j] = '#'
			}
			for _, n := range order {
				if got := btab.Value(want[n]); got != n {
					fail("bytes-reuse", "Value(%d) = %q after the caller's buffer was overwritten, want %q", want[n], got, n)
				}
				if qid, ok := btab.Query(n); !ok || qid != want[n] {
					fail("bytes-reuse", "Query(%q) = %d,%v after the caller's buffer was overwritten, want %d,true", n, qid, ok, want[n])
				}
			}
		}
	}
	// (3) stress: goroutines interning the same fresh strings concurrently must agree
	rounds := 8000
	if thorough {
		rounds = 60000
	}
	const c38workers = 16
	for r := 0; r < rounds; r++ {
		s := fmt.Sprintf("concurrent-string-%d", r)
		ids := make([]ID, c38workers)
		var wg sync.WaitGroup
		start := make(chan struct{}) // barrier: all goroutines reach Intern at the same moment
		for g := range ids {
			wg.Add(1)
			go func(g int) {
				defer wg.Done()
				<-start
				ids[g] = tab.Intern(s)
			}(g)
		}
		close(start)
		wg.Wait()
		evals++
		for _, id := range ids {
			if id != ids[0] || tab.Value(id) != s {
				fail("concurrent", "goroutines interning %q got ids %v", s, ids)
				break
			}
		}
	}
	fmt.Printf("BOUNDED: {\"evaluations\":%d,\"distinct\":%d,\"rule\":\"(1) all 256 byte values of both char6 tables (complete); (2) every string of length <=2 over all 256 bytes and length 3..%d over a 10-byte corner alphabet (alphabet, '.', '-', NUL, bytes >=0x80) through Intern/Value/Query on one Table; (2b) 40 names interned with InternBytes through one buffer that is overwritten after every call, all earlier names re-queried each time; (3) %d rounds of 16 goroutines released by a barrier interning the same new string (schedule sampling)\",\"exhaustive\":true,\"bound\":\"len<=2 over 256 bytes, len<=%d over 10 bytes\",\"samples\":[%s,%s,%s]}\n", evals, len(strs), maxLen, rounds, maxLen, c38json(strs[5]), c38json(strs[70000]), c38json(strs[len(strs)-9]))
}

// c38json renders a sample as a JSON string (Go's %q escapes such as \x00 are not JSON).
func c38json(s string) string {
	b, _ := json.Marshal(fmt.Sprintf("%q", s))
	return string(b)
}
