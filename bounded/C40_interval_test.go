package interval

// Bounded stand-in for C40 (labelled bounded, never counted as proved): every insertion
// sequence of the scope is replayed against a naive model (the list of inserted intervals).

import (
	"fmt"
	"math/rand"
	"os"
	"slices"
	"sort"
	"testing"
)

type c40iv struct{ a, b int }

func c40seq(seq []c40iv) string {
	s := ""
	for i, iv := range seq {
		if i > 0 {
			s += ","
		}
		s += fmt.Sprintf("[%d,%d]", iv.a, iv.b)
	}
	return s
}

// c40check replays seq and returns the first failing case ("" if none) and a description.
func c40check(seq []c40iv, lo, hi int) (string, string) {
	var m Intersect[int, int]
	var n Nesting[int, int]
	// F11 (known finding): an insertion that spans two adjacent entries writes an inverted
	// entry over the first of them. Everything the intersection map reports from then on is
	// attributed to that finding; histories without such an insertion are judged normally.
	tainted := false
	cover := func(k, p int) []int {
		var c []int
		for j, q := range seq[:k] {
			if q.a <= p && p <= q.b {
				c = append(c, j)
			}
		}
		return c
	}
	for i, iv := range seq {
		n.Insert(iv.a, iv.b, i)
	}
	if c, d := c40nesting(seq, &n); c != "" {
		return c, d
	}
	for i, iv := range seq {
		for p := iv.a; p < iv.b; p++ {
			l, r := cover(i, p), cover(i, p+1)
			if l != nil && r != nil && !slices.Equal(l, r) {
				tainted = true
			}
		}
		if c, d := c40step(seq, i, iv, &m, lo, hi); c != "" {
			if tainted {
				return "adjacent-entries-spanned", c + ": " + d
			}
			return c, d
		}
	}
	return "", ""
}

func c40step(seq []c40iv, i int, iv c40iv, m *Intersect[int, int], lo, hi int) (string, string) {
	{
		wantDisjoint := true
		for _, p := range seq[:i] {
			if p.a <= iv.b && iv.a <= p.b {
				wantDisjoint = false
			}
		}
		var got bool
		func() {
			defer func() {
				if r := recover(); r != nil {
					got = !wantDisjoint
				}
			}()
			got = m.Insert(iv.a, iv.b, i)
		}()
		if got != wantDisjoint {
			return "disjoint-flag", fmt.Sprintf("after %s: Insert(%d,%d) reported disjoint=%v, want %v", c40seq(seq[:i]), iv.a, iv.b, got, wantDisjoint)
		}
		// entries sorted and pairwise disjoint
		first := true
		var prev Entry[int, []int]
		for e := range m.Entries() {
			if e.Start > e.End {
				return "entries-inverted", fmt.Sprintf("after %s: entry [%d,%d] has Start > End", c40seq(seq[:i+1]), e.Start, e.End)
			}
			if !first && prev.End >= e.Start {
				return "entries-order", fmt.Sprintf("after %s: entries [%d,%d] and [%d,%d] are not sorted and disjoint", c40seq(seq[:i+1]), prev.Start, prev.End, e.Start, e.End)
			}
			prev, first = e, false
		}
		// point lookups
		for p := lo - 1; p <= hi+1; p++ {
			var want []int
			for j, q := range seq[:i+1] {
				if q.a <= p && p <= q.b {
					want = append(want, j)
				}
			}
			e := m.Get(p)
			if !slices.Equal(e.Value, want) || (want == nil) != (e.Value == nil) {
				return "get-values", fmt.Sprintf("after %s: Get(%d).Value = %v, want %v", c40seq(seq[:i+1]), p, e.Value, want)
			}
			if want != nil && !e.Contains(p) {
				return "get-entry", fmt.Sprintf("after %s: Get(%d) = [%d,%d] does not contain the point", c40seq(seq[:i+1]), p, e.Start, e.End)
			}
		}
	}
	return "", ""
}

func c40nesting(seq []c40iv, n *Nesting[int, int]) (string, string) {
	// nesting: the sets partition the inserted intervals, and within a set any two intervals
	// are disjoint or one is a strict subset of the other
	seen := map[int]int{}
	for set := range n.Sets() {
		var es []Entry[int, int]
		for e := range set {
			es = append(es, e)
		}
		sort.Slice(es, func(i, j int) bool { return es[i].Value < es[j].Value })
		for i, e := range es {
			seen[e.Value]++
			if e.Value < 0 || e.Value >= len(seq) || seq[e.Value] != (c40iv{e.Start, e.End}) {
				return "nesting-entry", fmt.Sprintf("%s: a set holds [%d,%d]#%d, which was not inserted", c40seq(seq), e.Start, e.End, e.Value)
			}
			for _, f := range es[:i] {
				disjoint := e.End < f.Start || f.End < e.Start
				eInF := f.Start <= e.Start && e.End <= f.End && (f.Start != e.Start || f.End != e.End)
				fInE := e.Start <= f.Start && f.End <= e.End && (f.Start != e.Start || f.End != e.End)
				if !disjoint && !eInF && !fInE {
					return "nesting-overlap", fmt.Sprintf("%s: one set holds [%d,%d] and [%d,%d]", c40seq(seq), f.Start, f.End, e.Start, e.End)
				}
			}
		}
	}
	for i := range seq {
		if seen[i] != 1 {
			return "nesting-partition", fmt.Sprintf("%s: interval #%d [%d,%d] appears in %d sets", c40seq(seq), i, seq[i].a, seq[i].b, seen[i])
		}
	}
	return "", ""
}

func TestVerifC40Bounded(t *testing.T) {
	thorough := os.Getenv("VERIF_TIER") == "thorough"
	evals := 0
	fails := map[string]int{}
	var samples []string
	seen := map[string]bool{}
	distinct := 0
	run := func(seq []c40iv, lo, hi int) {
		evals++
		if k := c40seq(seq); !seen[k] {
			seen[k] = true
			overlap := false
			for i, a := range seq {
				for _, b := range seq[:i] {
					if a.a <= b.b && b.a <= a.b {
						overlap = true
					}
				}
			}
			if overlap { // non-trivial: some insertion has to split or merge with an earlier interval
				distinct++
			}
		}
		if evals%4001 == 5 && len(samples) < 3 {
			samples = append(samples, c40seq(seq))
		}
		if c, d := c40check(seq, lo, hi); c != "" {
			fails[c]++
			if fails[c] <= 3 {
				fmt.Printf("BOUNDED-FAIL: %s: %s\n", c, d)
			}
		}
	}
	dom, maxLen := 5, 3
	if thorough {
		dom, maxLen = 6, 4
	}
	var ivs []c40iv
	for a := 0; a < dom; a++ {
		for b := a; b < dom; b++ {
			ivs = append(ivs, c40iv{a, b})
		}
	}
	var gen func(seq []c40iv)
	gen = func(seq []c40iv) {
		if len(seq) > 0 {
			run(seq, 0, dom-1)
		}
		if len(seq) == maxLen {
			return
		}
		for _, iv := range ivs {
			gen(append(slices.Clone(seq), iv))
		}
	}
	gen(nil)
	// stacked histories: one interval inserted r = 1..3 times (its entries then share value
	// slices with spare capacity), followed by every sequence of up to 3 of its sub-intervals -
	// the shape in which pieces of an earlier split are appended to again
	stackDom, stackTail := 4, 3
	if thorough {
		stackDom = 5
	}
	for a := 0; a < stackDom; a++ {
		for b := a; b < stackDom; b++ {
			var subs []c40iv
			for c := a; c <= b; c++ {
				for d := c; d <= b; d++ {
					subs = append(subs, c40iv{c, d})
				}
			}
			for r := 1; r <= 3; r++ {
				base := make([]c40iv, r)
				for i := range base {
					base[i] = c40iv{a, b}
				}
				var tails func(seq []c40iv, depth int)
				tails = func(seq []c40iv, depth int) {
					if depth > 0 {
						run(seq, 0, stackDom-1)
					}
					if depth == stackTail {
						return
					}
					for _, iv := range subs {
						tails(append(slices.Clone(seq), iv), depth+1)
					}
				}
				tails(base, 0)
			}
		}
	}
	exh := evals
	// random longer sequences over a wider domain
	rnd := rand.New(rand.NewSource(40))
	nr := 3000
	if thorough {
		nr = 60000
	}
	for i := 0; i < nr; i++ {
		l := 4 + rnd.Intn(9)
		w := 8 + rnd.Intn(12)
		seq := make([]c40iv, l)
		for j := range seq {
			a := rnd.Intn(w)
			b := a + rnd.Intn(w-a)
			if rnd.Intn(3) == 0 {
				b = a + rnd.Intn(min(3, w-a))
			}
			seq[j] = c40iv{a, b}
		}
		run(seq, 0, w)
	}
	for len(samples) < 3 {
		samples = append(samples, "")
	}
	fmt.Printf("BOUNDED: {\"evaluations\":%d,\"distinct\":%d,\"rule\":\"every insertion sequence of length <=%d of intervals [a,b] with 0<=a<=b<%d and every history 'one interval over 0..%d inserted 1..3 times, then up to 3 of its sub-intervals' (%d exhaustive in all), plus %d seeded random sequences of length 4..12 over widths 8..19: after each insertion Entries() sorted and pairwise disjoint, Get(p).Value == indices of the inserted intervals containing p in insertion order for every p in the domain +-1, Insert's result == disjoint from all earlier intervals; at the end Nesting.Sets() partitions the inserted intervals and any two in one set are disjoint or one is a strict subset of the other; distinct_nontrivial counts the distinct sequences in which at least two intervals overlap\",\"exhaustive\":true,\"bound\":\"len<=%d, endpoints<%d; random part is sampled\",\"samples\":[%q,%q,%q]}\n", evals, distinct, maxLen, dom, stackDom-1, exh, nr, maxLen, dom, samples[0], samples[1], samples[2])
}
