package source

// Bounded stand-in for C32 (labelled bounded, never counted as proved): for every text of the
// scope, every offset on a character boundary and every unit (bytes, UTF-16, runes),
// Location then InverseLocation returns the offset, the line is one plus the number of newlines
// before the offset, and the column is one plus the length of the text between the start of
// the line and the offset in that unit.

import (
	"fmt"
	"math/rand"
	"os"
	"strings"
	"testing"
	"unicode/utf16"
	"unicode/utf8"

	"github.com/bufbuild/protocompile/experimental/source/length"
)

func c32check(text string, fail func(c, d string)) (evals int) {
	units := []length.Unit{length.Bytes, length.UTF16, length.Runes}
	names := []string{"bytes", "utf16", "runes"}
	for off := 0; off <= len(text); off++ {
		if off < len(text) && !utf8.RuneStart(text[off]) {
			continue
		}
		wantLine := 1 + strings.Count(text[:off], "\n")
		ls := strings.LastIndexByte(text[:off], '\n') + 1
		seg := text[ls:off]
		for ui, u := range units {
			evals++
			f := NewFile("t.proto", text)
			var wantCol int
			switch u {
			case length.Bytes:
				wantCol = 1 + len(seg)
			case length.UTF16:
				wantCol = 1 + len(utf16.Encode([]rune(seg)))
			case length.Runes:
				wantCol = 1 + utf8.RuneCountInString(seg)
			}
			var loc Location
			var p any
			func() {
				defer func() { p = recover() }()
				loc = f.Location(off, u)
			}()
			if p != nil {
				fail("location-panic", fmt.Sprintf("text %q: Location(%d, %s) panics: %v", text, off, names[ui], p))
				continue
			}
			if loc.Line != wantLine {
				fail("line", fmt.Sprintf("text %q: Location(%d, %s).Line = %d, want %d", text, off, names[ui], loc.Line, wantLine))
			}
			if loc.Column != wantCol {
				fail("column-"+names[ui], fmt.Sprintf("text %q: Location(%d, %s).Column = %d, want %d", text, off, names[ui], loc.Column, wantCol))
			}
			if loc.Offset != off {
				fail("offset", fmt.Sprintf("text %q: Location(%d, %s).Offset = %d", text, off, names[ui], loc.Offset))
			}
			var back Location
			func() {
				defer func() { p = recover() }()
				back = NewFile("t.proto", text).InverseLocation(wantLine, wantCol, u)
			}()
			if p != nil {
				fail("inverse-panic", fmt.Sprintf("text %q: InverseLocation(%d, %d, %s) panics: %v", text, wantLine, wantCol, names[ui], p))
				continue
			}
			if back.Offset != off {
				fail("roundtrip-"+names[ui], fmt.Sprintf("text %q: offset %d is line %d column %d in %s, but InverseLocation gives offset %d", text, off, wantLine, wantCol, names[ui], back.Offset))
			}
		}
	}
	return evals
}

func TestVerifC32Bounded(t *testing.T) {
	thorough := os.Getenv("VERIF_TIER") == "thorough"
	evals, texts, nontrivial := 0, 0, 0
	seenText := map[string]bool{}
	fails := map[string]int{}
	fail := func(c, d string) {
		fails[c]++
		if fails[c] <= 3 {
			fmt.Printf("BOUNDED-FAIL: %s: %s\n", c, d)
		}
	}
	alpha := []string{"a", "\n", "é", "€", "\U0001F600", "\t"}
	maxLen := 5
	if thorough {
		maxLen = 7
	}
	var samples []string
	var gen func(p string, n int)
	gen = func(p string, n int) {
		texts++
		if len(p) != utf8.RuneCountInString(p) || strings.Contains(p, "\n") {
			nontrivial++ // the enumeration never repeats a text; non-trivial = more than one line or a multi-byte character
		}
		if texts%1999 == 11 && len(samples) < 3 {
			samples = append(samples, p)
		}
		evals += c32check(p, fail)
		if n == 0 {
			return
		}
		for _, a := range alpha {
			gen(p+a, n-1)
		}
	}
	gen("", maxLen)
	exh := texts
	rnd := rand.New(rand.NewSource(32))
	wide := []string{"a", "b", " ", "\n", "\n", "\r", "\t", "é", "́", "€", "�", "\U00010000", "\U0001F600", "\U0010FFFF", "‍"}
	nr := 400
	if thorough {
		nr = 8000
	}
	for i := 0; i < nr; i++ {
		var b strings.Builder
		n := 6 + rnd.Intn(60)
		for j := 0; j < n; j++ {
			b.WriteString(wide[rnd.Intn(len(wide))])
		}
		texts++
		if !seenText[b.String()] {
			seenText[b.String()] = true
			nontrivial++ // random texts of >=6 characters over this alphabet hold multi-byte characters or newlines
		}
		evals += c32check(b.String(), fail)
	}
	for len(samples) < 3 {
		samples = append(samples, "")
	}
	fmt.Printf("BOUNDED: {\"evaluations\":%d,\"distinct\":%d,\"rule\":\"every text of <=%d characters over {a, newline, tab, U+00E9 (2 bytes), U+20AC (3 bytes), U+1F600 (4 bytes, 2 UTF-16 units)} (%d texts, including the empty text, texts ending in a newline and empty lines) plus %d seeded random texts of 6..65 characters over 15 characters, every character-boundary offset 0..len, units bytes, UTF-16 and runes: Location gives line 1+newlines before the offset and column 1+length of the line prefix in the unit, and InverseLocation of that line and column returns the offset; distinct_nontrivial counts the distinct texts with more than one line or a multi-byte character\",\"exhaustive\":true,\"bound\":\"texts of <=%d characters over 6 characters; longer texts sampled\",\"samples\":[%q,%q,%q]}\n", evals, nontrivial, maxLen, exh, nr, maxLen, samples[0], samples[1], samples[2])
}
