package parser

// Bounded stand-in for the half of C24 that the contracts do not decide (labelled bounded, never
// counted as proved): for every file of the corpus, the clone's descriptor equals the original's,
// shares no message with it, and every node lookup on an element of the clone returns the very
// node the original returns for the matching element (the proof only shows that the clone *has*
// a node wherever the original has one, and that the node written is the original's at the moment
// it is written).

import (
	"fmt"
	"os"
	"path/filepath"
	"reflect"
	"strings"
	"testing"

	"google.golang.org/protobuf/proto"
	"google.golang.org/protobuf/reflect/protoreflect"
	"google.golang.org/protobuf/types/descriptorpb"

	"github.com/bufbuild/protocompile/ast"
	"github.com/bufbuild/protocompile/reporter"
)

func c24corpus() map[string]string {
	out := map[string]string{}
	filepath.Walk("../internal/testdata", func(path string, info os.FileInfo, err error) error {
		if err == nil && filepath.Ext(path) == ".proto" && info.Size() < 200000 {
			if b, err := os.ReadFile(path); err == nil {
				out[path] = string(b)
			}
		}
		return nil
	})
	out["every-kind"] = `syntax = "proto2";
package po;
import "google/protobuf/descriptor.proto";
option (fo) = "file";
option java_package = "x";
extend google.protobuf.FileOptions { optional string fo = 50101; }
extend google.protobuf.OneofOptions { optional string oo = 50104; }
message A {
  option (mo) = "msg";
  optional int32 f = 1 [(fdo) = "field", deprecated = true];
  oneof pick { option (oo) = "oneof"; int32 p = 2 [(fdo).a.b = "in-oneof"]; string q = 3; }
  extensions 100 to 199 [(ero) = "range"], 300;
  extensions 500 to max;
  message N {
    option (mo) = "nested";
    oneof inner { option (oo) = "nested-oneof"; bool b = 1; }
    enum NE { option (eo) = "nested-enum"; NE_A = 0 [(evo) = "nested-val"]; reserved 4; }
    optional group Grp = 2 [(fdo) = "group"] { option (mo) = "group-msg"; optional int32 g = 1; message Deep { message Deeper { optional int32 z = 1 [(x) = 1]; } } }
    extend A { optional int32 nested_ext = 101 [(fdo) = "nested-ext"]; }
  }
  map<string, N> m = 9 [(fdo) = "map"];
  reserved 50 to 60, 70;
  reserved "r1", "r2";
}
extend A { optional string ext = 100 [(fdo) = "ext"]; }
enum E { option (eo) = "enum"; option allow_alias = true; E_A = 0 [(evo) = "val"]; E_B = 0; reserved 5 to 7; reserved "X"; }
service Svc {
  option (so) = "svc";
  rpc Call(A) returns (A) { option (mto) = "method"; option idempotency_level = IDEMPOTENT; }
  rpc Stream(stream A) returns (stream A);
}
`
	out["editions"] = `edition = "2023";
package pe;
option features.field_presence = IMPLICIT;
message Z { int32 v = 1; string w = 2 [features.field_presence = EXPLICIT, default = "d"]; reserved foo, bar; }
enum Q { option features.enum_type = CLOSED; Q0 = 0; }
`
	out["proto3"] = `syntax = "proto3";
message P { optional int32 a = 1; repeated P kids = 2; oneof o { string s = 3; } }
`
	return out
}

type c24run struct {
	fails   int
	lookups int
}

func (c *c24run) fail(kind, format string, a ...any) {
	c.fails++
	if c.fails <= 5 {
		fmt.Printf("BOUNDED-FAIL: %s: %s\n", kind, fmt.Sprintf(format, a...))
	}
}

// c24same compares one lookup on the original with the same lookup on the clone.
func (c *c24run) same(file, what string, f func(r *result) ast.Node, o, cl *result) {
	c.lookups++
	var no, nc ast.Node
	var po, pc any
	func() { defer func() { po = recover() }(); no = f(o) }()
	func() { defer func() { pc = recover() }(); nc = f(cl) }()
	if (po != nil) != (pc != nil) {
		c.fail("lookup", "%s: %s: original panics=%v, clone panics=%v", file, what, po, pc)
		return
	}
	if po != nil {
		return
	}
	if no != nc {
		c.fail("lookup", "%s: %s: original returns %T %p, clone returns %T %p", file, what, no, no, nc, nc)
	}
}

func (c *c24run) options(file, where string, o, cl *result, oo, co []*descriptorpb.UninterpretedOption) {
	if len(oo) != len(co) {
		c.fail("shape", "%s: %s: %d options in the original, %d in the clone", file, where, len(oo), len(co))
		return
	}
	for i := range oo {
		i := i
		c.same(file, fmt.Sprintf("%s option %d", where, i), func(r *result) ast.Node {
			if r == o {
				return r.OptionNode(oo[i])
			}
			return r.OptionNode(co[i])
		}, o, cl)
		for j := range oo[i].Name {
			j := j
			c.same(file, fmt.Sprintf("%s option %d name part %d", where, i, j), func(r *result) ast.Node {
				if r == o {
					return r.OptionNamePartNode(oo[i].Name[j])
				}
				return r.OptionNamePartNode(co[i].Name[j])
			}, o, cl)
		}
	}
}

func (c *c24run) field(file, where string, o, cl *result, of, cf *descriptorpb.FieldDescriptorProto) {
	c.same(file, where, func(r *result) ast.Node {
		if r == o {
			return r.FieldNode(of)
		}
		return r.FieldNode(cf)
	}, o, cl)
	c.options(file, where, o, cl, of.GetOptions().GetUninterpretedOption(), cf.GetOptions().GetUninterpretedOption())
}

func (c *c24run) enum(file, where string, o, cl *result, oe, ce *descriptorpb.EnumDescriptorProto) {
	c.same(file, where, func(r *result) ast.Node {
		if r == o {
			return r.EnumNode(oe)
		}
		return r.EnumNode(ce)
	}, o, cl)
	c.options(file, where, o, cl, oe.GetOptions().GetUninterpretedOption(), ce.GetOptions().GetUninterpretedOption())
	for i := range oe.Value {
		i := i
		w := fmt.Sprintf("%s value %d", where, i)
		c.same(file, w, func(r *result) ast.Node {
			if r == o {
				return r.EnumValueNode(oe.Value[i])
			}
			return r.EnumValueNode(ce.Value[i])
		}, o, cl)
		c.options(file, w, o, cl, oe.Value[i].GetOptions().GetUninterpretedOption(), ce.Value[i].GetOptions().GetUninterpretedOption())
	}
	for i := range oe.ReservedRange {
		i := i
		c.same(file, fmt.Sprintf("%s reserved range %d", where, i), func(r *result) ast.Node {
			if r == o {
				return r.EnumReservedRangeNode(oe.ReservedRange[i])
			}
			return r.EnumReservedRangeNode(ce.ReservedRange[i])
		}, o, cl)
	}
}

func (c *c24run) message(file, where string, o, cl *result, om, cm *descriptorpb.DescriptorProto) {
	c.same(file, where, func(r *result) ast.Node {
		if r == o {
			return r.MessageNode(om)
		}
		return r.MessageNode(cm)
	}, o, cl)
	c.options(file, where, o, cl, om.GetOptions().GetUninterpretedOption(), cm.GetOptions().GetUninterpretedOption())
	for i := range om.Field {
		c.field(file, fmt.Sprintf("%s field %d", where, i), o, cl, om.Field[i], cm.Field[i])
	}
	for i := range om.Extension {
		c.field(file, fmt.Sprintf("%s extension %d", where, i), o, cl, om.Extension[i], cm.Extension[i])
	}
	for i := range om.OneofDecl {
		i := i
		w := fmt.Sprintf("%s oneof %d", where, i)
		c.same(file, w, func(r *result) ast.Node {
			if r == o {
				return r.OneofNode(om.OneofDecl[i])
			}
			return r.OneofNode(cm.OneofDecl[i])
		}, o, cl)
		c.options(file, w, o, cl, om.OneofDecl[i].GetOptions().GetUninterpretedOption(), cm.OneofDecl[i].GetOptions().GetUninterpretedOption())
	}
	for i := range om.ExtensionRange {
		i := i
		w := fmt.Sprintf("%s extension range %d", where, i)
		c.same(file, w, func(r *result) ast.Node {
			if r == o {
				return r.ExtensionRangeNode(om.ExtensionRange[i])
			}
			return r.ExtensionRangeNode(cm.ExtensionRange[i])
		}, o, cl)
		c.same(file, w+" (enclosing node)", func(r *result) ast.Node {
			if r == o {
				return r.ExtensionsNode(om.ExtensionRange[i])
			}
			return r.ExtensionsNode(cm.ExtensionRange[i])
		}, o, cl)
		c.options(file, w, o, cl, om.ExtensionRange[i].GetOptions().GetUninterpretedOption(), cm.ExtensionRange[i].GetOptions().GetUninterpretedOption())
	}
	for i := range om.ReservedRange {
		i := i
		c.same(file, fmt.Sprintf("%s reserved range %d", where, i), func(r *result) ast.Node {
			if r == o {
				return r.MessageReservedRangeNode(om.ReservedRange[i])
			}
			return r.MessageReservedRangeNode(cm.ReservedRange[i])
		}, o, cl)
	}
	for i := range om.EnumType {
		c.enum(file, fmt.Sprintf("%s enum %d", where, i), o, cl, om.EnumType[i], cm.EnumType[i])
	}
	for i := range om.NestedType {
		c.message(file, fmt.Sprintf("%s nested %d", where, i), o, cl, om.NestedType[i], cm.NestedType[i])
	}
}

// c24messages collects every message reachable from m (m included).
func c24messages(m protoreflect.Message, seen map[protoreflect.ProtoMessage]bool) {
	seen[m.Interface()] = true
	m.Range(func(fd protoreflect.FieldDescriptor, v protoreflect.Value) bool {
		switch {
		case fd.IsList() && fd.Message() != nil:
			for i := 0; i < v.List().Len(); i++ {
				c24messages(v.List().Get(i).Message(), seen)
			}
		case fd.IsMap():
		case fd.Message() != nil:
			c24messages(v.Message(), seen)
		}
		return true
	})
}

func TestVerifC24Bounded(t *testing.T) {
	c := &c24run{}
	files, withAST := 0, 0
	var samples []string
	for name, src := range c24corpus() {
		h := reporter.NewHandler(reporter.NewReporter(func(reporter.ErrorWithPos) error { return nil }, nil))
		fn, _ := Parse(name, strings.NewReader(src), h)
		if fn == nil {
			continue
		}
		var res Result
		func() {
			defer func() { _ = recover() }()
			res, _ = ResultFromAST(fn, false, reporter.NewHandler(reporter.NewReporter(func(reporter.ErrorWithPos) error { return nil }, nil)))
		}()
		o, ok := res.(*result)
		if !ok || o == nil {
			continue
		}
		files++
		before, _ := proto.MarshalOptions{Deterministic: true}.Marshal(o.proto)
		nodesBefore := len(o.nodes)
		cr := Clone(o)
		cl, ok := cr.(*result)
		if !ok {
			c.fail("shape", "%s: Clone returns %T", name, cr)
			continue
		}
		withAST++
		if cl == o || cl.proto == o.proto {
			c.fail("shared", "%s: the clone is the original (result or descriptor)", name)
			continue
		}
		if cl.AST() != o.AST() {
			c.fail("lookup", "%s: AST() differs", name)
		}
		if !proto.Equal(cl.proto, o.proto) {
			c.fail("equal", "%s: the clone's descriptor differs from the original's", name)
			continue
		}
		// no message is shared
		so, sc := map[protoreflect.ProtoMessage]bool{}, map[protoreflect.ProtoMessage]bool{}
		c24messages(o.proto.ProtoReflect(), so)
		c24messages(cl.proto.ProtoReflect(), sc)
		for m := range sc {
			if so[m] {
				c.fail("shared", "%s: message %T %p is part of both descriptors", name, m, m)
				break
			}
		}
		// the node maps are different maps
		if reflect.ValueOf(cl.nodes).Pointer() == reflect.ValueOf(o.nodes).Pointer() {
			c.fail("shared", "%s: the clone uses the original's node map", name)
		}
		// every lookup
		c.same(name, "file", func(r *result) ast.Node { return r.FileNode() }, o, cl)
		c.options(name, "file", o, cl, o.proto.GetOptions().GetUninterpretedOption(), cl.proto.GetOptions().GetUninterpretedOption())
		for i := range o.proto.MessageType {
			c.message(name, fmt.Sprintf("message %d", i), o, cl, o.proto.MessageType[i], cl.proto.MessageType[i])
		}
		for i := range o.proto.EnumType {
			c.enum(name, fmt.Sprintf("enum %d", i), o, cl, o.proto.EnumType[i], cl.proto.EnumType[i])
		}
		for i := range o.proto.Extension {
			c.field(name, fmt.Sprintf("extension %d", i), o, cl, o.proto.Extension[i], cl.proto.Extension[i])
		}
		for i := range o.proto.Service {
			i := i
			w := fmt.Sprintf("service %d", i)
			c.same(name, w, func(r *result) ast.Node {
				if r == o {
					return r.ServiceNode(o.proto.Service[i])
				}
				return r.ServiceNode(cl.proto.Service[i])
			}, o, cl)
			c.options(name, w, o, cl, o.proto.Service[i].GetOptions().GetUninterpretedOption(), cl.proto.Service[i].GetOptions().GetUninterpretedOption())
			for j := range o.proto.Service[i].Method {
				j := j
				wm := fmt.Sprintf("%s method %d", w, j)
				c.same(name, wm, func(r *result) ast.Node {
					if r == o {
						return r.MethodNode(o.proto.Service[i].Method[j])
					}
					return r.MethodNode(cl.proto.Service[i].Method[j])
				}, o, cl)
				c.options(name, wm, o, cl, o.proto.Service[i].Method[j].GetOptions().GetUninterpretedOption(), cl.proto.Service[i].Method[j].GetOptions().GetUninterpretedOption())
			}
		}
		// independence: emptying the clone does not touch the original
		proto.Reset(cl.proto)
		for k := range cl.nodes {
			delete(cl.nodes, k)
		}
		after, _ := proto.MarshalOptions{Deterministic: true}.Marshal(o.proto)
		if string(before) != string(after) || len(o.nodes) != nodesBefore {
			c.fail("shared", "%s: resetting the clone changed the original", name)
		}
		if len(samples) < 6 {
			samples = append(samples, fmt.Sprintf("%q", fmt.Sprintf("%s: %d index entries compared", filepath.Base(name), nodesBefore)))
		}
	}
	rule := "C24: Clone of a parse result with an AST: descriptor proto.Equal to the original's, no message and no node map shared, every node lookup (file, message, field, oneof, extension range + enclosing node, reserved ranges, enum, enum value, service, method, option, option name part, at every nesting depth) returns the original's node, resetting the clone leaves the original unchanged"
	fmt.Printf("BOUNDED: {\"evaluations\":%d,\"distinct\":%d,\"rule\":%q,\"exhaustive\":false,\"bound\":\"%d corpus files (internal/testdata/*.proto parsed leniently + 3 hand-written with every element kind), %d cloned with AST\",\"samples\":[%s]}\n", c.lookups, files, rule, files, withAST, strings.Join(samples, ","))
	if c.fails > 0 {
		t.Fail()
	}
}
