package incremental_test

// Bounded stand-in for C36, collection half (labelled bounded, never counted as proved): for
// generated query graphs and generated invalid workspaces, the diagnostics a Run reports are the
// same, in the same order, for every parallelism, for repeated runs on one executor (cache
// hits) and for fresh executors.

import (
	"context"
	"fmt"
	"math/rand"
	"os"
	"runtime"
	"strings"
	"testing"

	"github.com/bufbuild/protocompile/experimental/incremental"
	"github.com/bufbuild/protocompile/experimental/incremental/queries"
	"github.com/bufbuild/protocompile/experimental/ir"
	"github.com/bufbuild/protocompile/experimental/report"
	"github.com/bufbuild/protocompile/experimental/source"
)

var c36srcs = []*source.File{source.NewFile("x.proto", strings.Repeat("x", 64)), source.NewFile("y.proto", strings.Repeat("y", 64))}

// c36node is a query that reports Emit diagnostics of its own and depends on Deps.
type c36node struct {
	G    *c36graph
	ID   int
	Salt int
}

type c36graph struct {
	deps  [][]int
	emit  []int
	yield []int // scheduling noise: number of Gosched calls before resolving deps
}

func (n c36node) Key() any { return fmt.Sprintf("c36/%p/%d/%d", n.G, n.Salt, n.ID) }

func (n c36node) Execute(t *incremental.Task) (int, error) {
	for i := 0; i < n.G.emit[n.ID]; i++ {
		sp := source.Span{File: c36srcs[(n.ID+i)%2], Start: (n.ID*7 + i*3) % 50, End: (n.ID*7+i*3)%50 + 1 + i%3}
		d := t.Report().Levelf(report.Level(1+(n.ID+i)%2), "node %d diagnostic %d", n.ID, i).Apply(report.Snippet(sp))
		if i%2 == 1 {
			d.Apply(report.Tag(fmt.Sprintf("tag-%d", n.ID%3)))
			if n.ID%2 == 0 {
				// the same tagged diagnostic once more: canonicalisation collapses the pair, which
				// compacts whatever slice the collector handed it
				t.Report().Levelf(report.Level(1+(n.ID+i)%2), "node %d diagnostic %d", n.ID, i).Apply(report.Snippet(sp), report.Tag(fmt.Sprintf("tag-%d", n.ID%3)))
			}
		}
	}
	for i := 0; i < n.G.yield[n.ID]; i++ {
		runtime.Gosched()
	}
	var qs []incremental.Query[int]
	for _, d := range n.G.deps[n.ID] {
		qs = append(qs, c36node{n.G, d, n.Salt})
	}
	sum := n.G.emit[n.ID]
	if len(qs) > 0 {
		rs, err := incremental.Resolve(t, qs...)
		if err != nil {
			return 0, err
		}
		for _, r := range rs {
			sum += r.Value
		}
	}
	return sum, nil
}

func c36list(r *report.Report) string {
	var b strings.Builder
	for _, d := range r.Diagnostics {
		sp := d.Primary()
		fmt.Fprintf(&b, "%v %q %q %s:%d-%d\n", d.Level(), d.Tag(), d.Message(), sp.Path(), sp.Start, sp.End)
	}
	return b.String()
}

func TestVerifC36Run(t *testing.T) {
	thorough := os.Getenv("VERIF_TIER") == "thorough"
	evals, graphs, nontrivial := 0, 0, 0
	fails := map[string]int{}
	fail := func(c, d string) {
		fails[c]++
		if fails[c] <= 3 {
			fmt.Printf("BOUNDED-FAIL: %s: %s\n", c, d)
		}
	}
	rnd := rand.New(rand.NewSource(3636))
	ng := 150
	if thorough {
		ng = 1200
	}
	maxPar := int64(6)
	var samples []string
	for gi := 0; gi < ng; gi++ {
		n := 2 + rnd.Intn(9)
		g := &c36graph{deps: make([][]int, n), emit: make([]int, n), yield: make([]int, n)}
		for i := 0; i < n; i++ {
			// 3, 5 and 6 leave spare capacity in the task's diagnostics slice (append growth
			// 1,2,4,8), which is what an aliasing collector would write into
			g.emit[i] = []int{0, 1, 1, 3, 3, 5, 6, 2}[rnd.Intn(8)]
			g.yield[i] = rnd.Intn(4)
			for j := i + 1; j < n; j++ { // acyclic: edges go to higher ids only
				if rnd.Intn(3) == 0 {
					g.deps[i] = append(g.deps[i], j)
				}
			}
		}
		nroots := 1 + rnd.Intn(3)
		var rootIDs []int
		for i := 0; i < nroots; i++ {
			rootIDs = append(rootIDs, rnd.Intn(n))
		}
		graphs++
		emitters := 0
		for _, e := range g.emit {
			if e > 0 {
				emitters++
			}
		}
		if emitters >= 2 { // non-trivial: diagnostics of at least two tasks have to be merged
			nontrivial++
		}
		if len(samples) < 3 && gi%17 == 2 {
			samples = append(samples, fmt.Sprintf("deps=%v emit=%v roots=%v", g.deps, g.emit, rootIDs))
		}
		want := ""
		for par := int64(1); par <= maxPar; par++ {
			exec := incremental.New(incremental.WithParallelism(par))
			for run := 0; run < 3; run++ {
				var qs []incremental.Query[int]
				for _, id := range rootIDs {
					qs = append(qs, c36node{g, id, gi})
				}
				_, r, err := incremental.Run(context.Background(), exec, qs...)
				evals++
				if err != nil {
					fail("run-error", fmt.Sprintf("graph deps=%v roots=%v parallelism=%d: %v", g.deps, rootIDs, par, err))
					continue
				}
				got := c36list(r)
				if par == 1 && run == 0 {
					want = got
					continue
				}
				if got != want {
					c := "parallelism"
					if run > 0 {
						c = "repeated-run"
					}
					fail(c, fmt.Sprintf("graph deps=%v emit=%v roots=%v: parallelism %d run %d reports\n%s\nbut parallelism 1 run 0 reported\n%s", g.deps, g.emit, rootIDs, par, run, got, want))
				}
			}
		}
	}
	// the real compiler queries over generated invalid workspaces
	nw := 6
	if thorough {
		nw = 60
	}
	for wi := 0; wi < nw; wi++ {
		nf := 2 + rnd.Intn(4)
		texts := map[string]string{}
		var paths []string
		for f := 0; f < nf; f++ {
			p := fmt.Sprintf("f%d.proto", f)
			paths = append(paths, p)
			var b strings.Builder
			fmt.Fprintf(&b, "syntax = \"proto3\";\npackage p%d;\n", f%2)
			for j := f + 1; j < nf; j++ {
				if rnd.Intn(2) == 0 {
					fmt.Fprintf(&b, "import \"f%d.proto\";\n", j)
				}
			}
			if rnd.Intn(3) == 0 {
				b.WriteString("import \"missing.proto\";\n")
			}
			nm := 1 + rnd.Intn(3)
			for m := 0; m < nm; m++ {
				fmt.Fprintf(&b, "message M%d {\n", m%2) // duplicate names now and then
				nfld := 1 + rnd.Intn(4)
				for k := 0; k < nfld; k++ {
					fmt.Fprintf(&b, "  %s f%d = %d;\n", []string{"Nope", "int32", "Missing.Type", "string"}[rnd.Intn(4)], k%3, 1+k%2)
				}
				b.WriteString("}\n")
			}
			texts[p] = b.String()
		}
		render := func(r *report.Report) string {
			s, _, _ := report.Renderer{}.RenderString(r)
			return fmt.Sprintf("%d diagnostics\n%s", len(r.Diagnostics), s)
		}
		want := ""
		graphs++
		nontrivial++ // every generated workspace has several files with errors
		for par := int64(1); par <= maxPar; par++ {
			m := map[string]*source.File{}
			for p, text := range texts {
				m[p] = source.NewFile(p, text)
			}
			opener := &source.Openers{source.NewMap(m), source.WKTs()}
			session := new(ir.Session)
			exec := incremental.New(incremental.WithParallelism(par))
			var qs []incremental.Query[*ir.File]
			for _, p := range paths {
				qs = append(qs, queries.IR{Opener: opener, Session: session, Path: p})
			}
			for run := 0; run < 3; run++ {
				_, r, err := incremental.Run(context.Background(), exec, qs...)
				evals++
				if err != nil {
					fail("run-error", fmt.Sprintf("workspace %d parallelism=%d: %v", wi, par, err))
					continue
				}
				got := render(r)
				if want == "" {
					want = got
					continue
				}
				if got != want {
					c := "parallelism"
					if run > 0 {
						c = "repeated-run"
					}
					fail(c, fmt.Sprintf("workspace %q: parallelism %d run %d reports\n%s\nbut the first run reported\n%s", texts, par, run, got, want))
				}
			}
		}
	}
	for len(samples) < 3 {
		samples = append(samples, "")
	}
	fmt.Printf("BOUNDED: {\"evaluations\":%d,\"distinct\":%d,\"rule\":\"%d seeded random acyclic query graphs (2..10 queries, each reporting 0..4 diagnostics, 1..3 roots, scheduling noise via Gosched) and %d generated invalid workspaces (2..5 .proto files with unresolved types, duplicate names and numbers, missing imports) through queries.IR: parallelism 1..%d x 3 consecutive runs on one executor (runs 2 and 3 are cache hits), every report compared with the first (message, level, tag, primary span, order; rendered text for workspaces); distinct_nontrivial counts the generated graphs/workspaces in which at least two tasks report diagnostics\",\"exhaustive\":false,\"bound\":\"sampled graphs and workspaces; schedules are whatever the Go scheduler produces\",\"samples\":[%q,%q,%q]}\n", evals, nontrivial, ng, nw, maxPar, samples[0], samples[1], samples[2])
}
