package report

// Bounded stand-in for C37 (labelled bounded, never counted as proved): every report of a
// structured small scope is converted with ToProto, marshalled, unmarshalled and read back with
// AppendFromProto; every field named in the property statement is compared.

import (
	"fmt"
	"math/rand"
	"os"
	"reflect"
	"strings"
	"testing"

	"google.golang.org/protobuf/proto"

	"github.com/bufbuild/protocompile/experimental/source"
)

type c37snip struct {
	file       int
	start, end int
	msg        string
	primary    bool
	pageBreak  bool
	edits      []Edit
}

type c37diag struct {
	level              Level
	msg, tag, inFile   string
	notes, help, debug []string
	snips              []c37snip
}

func c37build(files []*source.File, ds []c37diag) *Report {
	r := &Report{}
	for _, d := range ds {
		dd := Diagnostic{tag: d.tag, message: d.msg, level: d.level, inFile: d.inFile, notes: d.notes, help: d.help, debug: d.debug}
		for _, s := range d.snips {
			dd.snippets = append(dd.snippets, snippet{Span: source.Span{File: files[s.file], Start: s.start, End: s.end}, message: s.msg, primary: s.primary, pageBreak: s.pageBreak, edits: s.edits})
		}
		r.Diagnostics = append(r.Diagnostics, dd)
	}
	return r
}

func c37show(r *Report) string {
	var sb strings.Builder
	for i, d := range r.Diagnostics {
		fmt.Fprintf(&sb, "d%d{level=%d msg=%q tag=%q inFile=%q notes=%q help=%q debug=%q", i, d.level, d.message, d.tag, d.inFile, d.notes, d.help, d.debug)
		anyPrimary := false
		for _, s := range d.snippets {
			anyPrimary = anyPrimary || s.primary
		}
		for j, s := range d.snippets {
			primary := s.primary || (!anyPrimary && j == 0) // decoding marks the first annotation primary when none is
			fmt.Fprintf(&sb, " s%d{path=%q text=%q span=[%d:%d] msg=%q primary=%v pb=%v edits=%v}", j, s.File.Path(), s.File.Text(), s.Start, s.End, s.message, primary, s.pageBreak, s.edits)
		}
		sb.WriteString("}")
	}
	return sb.String()
}

func c37roundtrip(r *Report) (*Report, error) {
	b, err := proto.Marshal(r.ToProto())
	if err != nil {
		return nil, err
	}
	out := &Report{}
	err = out.AppendFromProto(func(m proto.Message) error { return proto.Unmarshal(b, m) })
	return out, err
}

func TestVerifC37Bounded(t *testing.T) {
	thorough := os.Getenv("VERIF_TIER") == "thorough"
	texts := []string{"", "ab", "abc\nde\n"}
	if thorough {
		texts = append(texts, "x", "é\n")
	}
	evals := 0
	distinct := map[string]bool{}
	fails := map[string]int{}
	var samples []string
	check := func(kind string, files []*source.File, ds []c37diag) {
		r := c37build(files, ds)
		want := c37show(r)
		evals++
		if !distinct[want] {
			distinct[want] = true
			if len(samples) < 3 {
				samples = append(samples, want)
			}
		}
		got, err := c37roundtrip(r)
		if err != nil {
			fails[kind]++
			if fails[kind] <= 2 {
				fmt.Printf("BOUNDED-FAIL: %s: report %s fails to decode: %v\n", kind, want, err)
			}
			return
		}
		if g := c37show(got); g != want {
			fails[kind]++
			if fails[kind] <= 2 {
				fmt.Printf("BOUNDED-FAIL: %s: round trip changed the report: want %s got %s\n", kind, want, g)
			}
		}
	}
	strs := [][]string{nil, {"n1"}, {"n1", "n2"}}
	levels := []Level{ICE, Error, Warning, Remark}
	// 1. every span of every text (including empty spans at end of file), one and two files
	for ti, txt := range texts {
		f0 := source.NewFile(fmt.Sprintf("f%d.proto", ti), txt)
		other := source.NewFile("other.proto", "0123456789")
		for s := 0; s <= len(txt); s++ {
			for e := s; e <= len(txt); e++ {
				check("span", []*source.File{f0}, []c37diag{{level: Error, msg: "m", snips: []c37snip{{file: 0, start: s, end: e, msg: "a", primary: true}}}})
				check("span-second-file", []*source.File{other, f0}, []c37diag{{level: Error, msg: "m", snips: []c37snip{{file: 0, start: 2, end: 5, primary: true}, {file: 1, start: s, end: e, msg: "b"}}}})
			}
		}
	}
	// 2. scalar fields
	fa := source.NewFile("a.proto", "package a;\nmessage M {}\n")
	fb := source.NewFile("b.proto", "package b;\nmessage N {}\n")
	for _, lv := range levels {
		for _, tag := range []string{"", "tag"} {
			for _, inFile := range []string{"", "x.proto"} {
				for _, notes := range strs {
					check(fmt.Sprintf("level-%d", lv), []*source.File{fa}, []c37diag{{level: lv, msg: "msg", tag: tag, inFile: inFile, notes: notes, help: strs[(len(notes)+1)%3], debug: strs[(len(notes)+2)%3]}})
				}
			}
		}
	}
	// 3. annotation flags and edits (in every order)
	editSets := [][]Edit{nil, {{Start: 0, End: 0, Replace: "("}}, {{0, 0, "("}, {3, 3, ")"}}, {{3, 3, ")"}, {0, 0, "("}}, {{1, 2, ""}, {0, 1, "xy"}, {2, 3, "z"}}}
	for _, es := range editSets {
		for _, primary := range []bool{false, true} {
			for _, pb := range []bool{false, true} {
				check("edits", []*source.File{fa}, []c37diag{{level: Warning, msg: "m", snips: []c37snip{{file: 0, start: 11, end: 18, msg: "s0", primary: primary, pageBreak: pb, edits: es}, {file: 0, start: 0, end: 7, msg: "s1", edits: es}}}})
			}
		}
	}
	// 4. several diagnostics over several files, every assignment of files to annotations
	nfiles := 2
	files := []*source.File{fa, fb}
	if thorough {
		files = append(files, source.NewFile("c.proto", "package c;\n"))
		nfiles = 3
	}
	var assign func(k int, cur []int)
	total := 4
	assign = func(k int, cur []int) {
		if k == total {
			ds := []c37diag{
				{level: Error, msg: "d0", snips: []c37snip{{file: cur[0], start: 0, end: 7, msg: "x", primary: true}, {file: cur[1], start: 8, end: 9, msg: "y"}}},
				{level: Warning, msg: "d1", snips: []c37snip{{file: cur[2], start: 1, end: 3, msg: "z", primary: true}, {file: cur[3], start: 0, end: 0}}},
			}
			check("multi-file", files, ds)
			return
		}
		for f := 0; f < nfiles; f++ {
			assign(k+1, append(cur, f))
		}
	}
	assign(0, nil)
	// 5. seeded random reports: 1..4 files (empty, ASCII, multi-byte, multi-line texts), 0..4
	// diagnostics with random scalar fields and 0..3 annotations with any span inside the file
	rnd := rand.New(rand.NewSource(37))
	pool := []string{"", "m", "a message", "é€\U0001F600", "line1\nline2", "tab\tq\"uote", strings.Repeat("long ", 40)}
	txts := []string{"", "x", "ab", "abc\nde\n", "é\n€", "syntax = \"proto3\";\nmessage M {}\n", "\n\n"}
	pick := func() string { return pool[rnd.Intn(len(pool))] }
	list := func() []string {
		var l []string
		for n := rnd.Intn(3); n > 0; n-- {
			l = append(l, pick())
		}
		return l
	}
	nrand := 1500
	if thorough {
		nrand = 40000
	}
	for i := 0; i < nrand; i++ {
		nf := 1 + rnd.Intn(4)
		var fs []*source.File
		for f := 0; f < nf; f++ {
			fs = append(fs, source.NewFile(fmt.Sprintf("r%d.proto", f), txts[rnd.Intn(len(txts))]))
		}
		var ds []c37diag
		for n := rnd.Intn(5); n > 0; n-- {
			d := c37diag{level: levels[rnd.Intn(len(levels))], msg: pool[1+rnd.Intn(len(pool)-1)], // a diagnostic must have a message (documented; the decoder rejects one without)
				tag: pool[rnd.Intn(3)], notes: list(), help: list(), debug: list()}
			if rnd.Intn(4) == 0 {
				d.inFile = "in.proto"
			}
			primaryAt := rnd.Intn(3)
			for k, ns := 0, rnd.Intn(4); k < ns; k++ {
				fi := rnd.Intn(nf)
				l := len(fs[fi].Text())
				a := rnd.Intn(l + 1)
				b := a + rnd.Intn(l-a+1)
				if rnd.Intn(5) == 0 {
					a, b = l, l // empty span at the end of the file
				}
				sn := c37snip{file: fi, start: a, end: b, msg: pick(), primary: k == primaryAt, pageBreak: rnd.Intn(4) == 0}
				for ne := rnd.Intn(3); ne > 0 && rnd.Intn(3) == 0; ne-- {
					x := rnd.Intn(b - a + 1)
					y := x + rnd.Intn(b-a-x+1)
					sn.edits = append(sn.edits, Edit{Start: x, End: y, Replace: pool[rnd.Intn(3)]})
				}
				d.snips = append(d.snips, sn)
			}
			ds = append(ds, d)
		}
		check("random", fs, ds)
	}
	rule := "structured exhaustive scope plus seeded random reports (1..4 files, 0..4 diagnostics, 0..3 annotations with any span inside their file, random scalar fields and edit lists): every span (start<=end<=len, incl. empty spans at end of file) of each text; every level x tag x inFile x notes/help/debug list shape; every edit list of the corpus in every order x primary x pageBreak; every assignment of files to the annotations of two diagnostics; distinct = distinct reports by their full field dump"
	ss := make([]string, 0, 3)
	for _, s := range samples {
		ss = append(ss, fmt.Sprintf("%q", s))
	}
	fmt.Printf("BOUNDED: {\"evaluations\":%d,\"distinct\":%d,\"rule\":%q,\"exhaustive\":true,\"bound\":\"texts %d, files <=%d, diagnostics <=2, annotations <=2, edits <=3\",\"samples\":[%s]}\n", evals, len(distinct), rule, len(texts), nfiles, strings.Join(ss, ","))
	_ = reflect.DeepEqual
}
