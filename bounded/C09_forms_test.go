package protocompile

// Bounded stand-in for C09 (labelled bounded, never counted as proved): for every source set of
// the scope, every assignment of an input form (source, AST, parse result, descriptor proto) to
// its files and every source-info mode, the compiled descriptors equal those compiled from
// source, and the parse results and descriptor protos handed over by the resolver are
// unchanged afterwards. A second part compiles concurrently from shared objects.

import (
	"context"
	"fmt"
	"os"
	"strings"
	"sync"
	"testing"

	"google.golang.org/protobuf/proto"
	"google.golang.org/protobuf/types/descriptorpb"

	"github.com/bufbuild/protocompile/ast"
	"github.com/bufbuild/protocompile/linker"
	"github.com/bufbuild/protocompile/parser"
	"github.com/bufbuild/protocompile/protoutil"
	"github.com/bufbuild/protocompile/reporter"
)

var c09sets = []map[string]string{
	{"a.proto": `syntax = "proto3";
package pa;
// leading comment on M
message M {
  // leading on f
  string f = 1; // trailing on f
  M child = 2;
  K k = 3 [deprecated = true];
  map<string, K> m = 4;
  oneof o { int32 x = 5; string y = 6; }
}
/* K */
enum K { K_ZERO = 0; K_ONE = 1; }
service S { rpc Do(M) returns (stream M); }
`},
	{"a.proto": `syntax = "proto2";
package pa;
import "google/protobuf/descriptor.proto";
extend google.protobuf.FieldOptions { optional string tag = 50001; }
extend google.protobuf.MessageOptions { optional Opt mo = 50002; }
message Opt { optional int32 n = 1; repeated string s = 2; }
message Base { extensions 100 to 200; optional bytes b = 1 [default = "a\000\377"]; }
`, "b.proto": `syntax = "proto2";
package pb;
import "a.proto";
// uses the options and extends Base
message U {
  option (pa.mo) = { n: 3 s: "x" s: "y" };
  optional pa.Base base = 1 [(pa.tag) = "t"];
  optional double d = 2 [default = 1.5e3];
  optional group G = 3 { optional int32 i = 1; }
}
extend pa.Base { optional U u = 100; }
`},
	{"x.proto": `syntax = "proto3";
package px;
import public "y.proto";
message X { py.Y y = 1; }
`, "y.proto": `syntax = "proto3";
package py;
import "z.proto";
message Y { pz.Z z = 1; repeated int32 r = 2 [packed = false]; }
`, "z.proto": `edition = "2023";
package pz;
option features.field_presence = IMPLICIT;
message Z { int32 v = 1; string w = 2 [features.field_presence = EXPLICIT]; }
`},
	// custom options on every kind of element (the clone of a parse result has to re-create the
	// option -> AST node index position by position, one element kind at a time)
	{"o.proto": `syntax = "proto2";
package po;
import "google/protobuf/descriptor.proto";
option (fo) = "file";
extend google.protobuf.FileOptions { optional string fo = 50101; }
extend google.protobuf.MessageOptions { optional string mo = 50102; }
extend google.protobuf.FieldOptions { optional string fdo = 50103; }
extend google.protobuf.OneofOptions { optional string oo = 50104; }
extend google.protobuf.ExtensionRangeOptions { optional string ero = 50105; }
extend google.protobuf.EnumOptions { optional string eo = 50106; }
extend google.protobuf.EnumValueOptions { optional string evo = 50107; }
extend google.protobuf.ServiceOptions { optional string so = 50108; }
extend google.protobuf.MethodOptions { optional string mto = 50109; }
message A {
  option (mo) = "msg";
  optional int32 f = 1 [(fdo) = "field", deprecated = true];
  oneof pick { option (oo) = "oneof"; int32 p = 2 [(fdo) = "in-oneof"]; string q = 3; }
  extensions 100 to 199 [(ero) = "range"];
  message N {
    option (mo) = "nested";
    oneof inner { option (oo) = "nested-oneof"; bool b = 1; }
    enum NE { option (eo) = "nested-enum"; NE_A = 0 [(evo) = "nested-val"]; }
    optional group Grp = 2 [(fdo) = "group"] { option (mo) = "group-msg"; optional int32 g = 1; }
  }
  reserved 50 to 60;
}
extend A { optional string ext = 100 [(fdo) = "ext"]; }
enum E { option (eo) = "enum"; option allow_alias = true; E_A = 0 [(evo) = "val"]; E_B = 0; reserved 5 to 7; }
service Svc {
  option (so) = "svc";
  rpc Call(A) returns (A) { option (mto) = "method"; option idempotency_level = IDEMPOTENT; }
}
`},
}

const (
	c09Source = iota
	c09AST
	c09ParseResult
	c09Proto
	c09ParseResultNoAST
	c09ParseResultWithInfo // a parse result with its AST whose descriptor already carries source info
	c09nForms
)

var c09formNames = []string{"source", "AST", "ParseResult", "Proto", "ParseResult-without-AST", "ParseResult-with-source-info"}

func c09compile(mode SourceInfoMode, res Resolver, names []string) (_ map[string]*descriptorpb.FileDescriptorProto, err error) {
	defer func() {
		if p := recover(); p != nil {
			err = fmt.Errorf("panic: %v", p)
		}
	}()
	c := &Compiler{Resolver: WithStandardImports(res), SourceInfoMode: mode}
	files, err := c.Compile(context.Background(), names...)
	if err != nil {
		return nil, err
	}
	out := map[string]*descriptorpb.FileDescriptorProto{}
	for _, f := range files {
		out[f.Path()] = protoutil.ProtoFromFileDescriptor(f)
	}
	return out, nil
}

// c09eq compares two descriptors by their deterministic wire form (proto.Equal would call
// custom options of two separate compilations different because their dynamic extension types
// are distinct objects).
func c09eq(a, b *descriptorpb.FileDescriptorProto) bool {
	ba, ea := proto.MarshalOptions{Deterministic: true}.Marshal(a)
	bb, eb := proto.MarshalOptions{Deterministic: true}.Marshal(b)
	return ea == nil && eb == nil && string(ba) == string(bb)
}

func c09sourceResolver(set map[string]string) Resolver {
	return ResolverFunc(func(name string) (SearchResult, error) {
		if s, ok := set[name]; ok {
			return SearchResult{Source: strings.NewReader(s)}, nil
		}
		return SearchResult{}, os.ErrNotExist
	})
}

func TestVerifC09Bounded(t *testing.T) {
	thorough := os.Getenv("VERIF_TIER") == "thorough"
	evals, nontrivial := 0, 0
	fails := map[string]int{}
	fail := func(c, d string) {
		fails[c]++
		if fails[c] <= 3 {
			fmt.Printf("BOUNDED-FAIL: %s: %s\n", c, d)
		}
	}
	modes := []SourceInfoMode{0, 1, 2, 3, 4, 5, 6, 7}
	var samples []string
	for si, set := range c09sets {
		var names []string
		for n := range set {
			names = append(names, n)
		}
		// stable order
		for i := range names {
			for j := i + 1; j < len(names); j++ {
				if names[j] < names[i] {
					names[i], names[j] = names[j], names[i]
				}
			}
		}
		std, err := c09compile(SourceInfoStandard, c09sourceResolver(set), names)
		if err != nil {
			fail("corpus", fmt.Sprintf("set %d does not compile from source: %v", si, err))
			continue
		}
		for _, mode := range modes {
			want, err := c09compile(mode, c09sourceResolver(set), names)
			if err != nil {
				fail("corpus", fmt.Sprintf("set %d does not compile from source in mode %d: %v", si, mode, err))
				continue
			}
			nforms := 1
			for range names {
				nforms *= c09nForms
			}
			for code := 0; code < nforms; code++ {
				if !thorough && len(names) == 3 && (code*7+int(mode))%6 != 0 {
					continue // quick tier: a sixth of the 216 assignments of the 3-file set per mode
				}
				forms := map[string]int{}
				c := code
				desc := ""
				for _, n := range names {
					forms[n] = c % c09nForms
					desc += fmt.Sprintf("%s=%s ", n, c09formNames[c%c09nForms])
					c /= c09nForms
				}
				// build the objects the resolver hands over, and snapshots of them
				asts := map[string]*ast.FileNode{}
				prs := map[string]parser.Result{}
				protos := map[string]*descriptorpb.FileDescriptorProto{}
				snaps := map[string]*descriptorpb.FileDescriptorProto{}
				ok := true
				for _, n := range names {
					if forms[n] == c09Source {
						continue
					}
					fn, err := parser.Parse(n, strings.NewReader(set[n]), reporter.NewHandler(nil))
					if err != nil {
						ok = false
						break
					}
					switch forms[n] {
					case c09AST:
						asts[n] = fn
					case c09ParseResult, c09ParseResultWithInfo:
						pr, err := parser.ResultFromAST(fn, true, reporter.NewHandler(nil))
						if err != nil {
							ok = false
							break
						}
						if forms[n] == c09ParseResultWithInfo {
							// the source info that belongs to this mode (a compilation keeps source info
							// that is already there); with SourceInfoNone, where it must be stripped, the
							// standard one
							info := want[n].GetSourceCodeInfo()
							if info == nil {
								info = std[n].GetSourceCodeInfo()
							}
							if info != nil {
								pr.FileDescriptorProto().SourceCodeInfo = proto.Clone(info).(*descriptorpb.SourceCodeInfo)
							}
						}
						prs[n] = pr
						snaps[n] = proto.Clone(pr.FileDescriptorProto()).(*descriptorpb.FileDescriptorProto)
					case c09Proto, c09ParseResultNoAST:
						pr, err := parser.ResultFromAST(fn, true, reporter.NewHandler(nil))
						if err != nil {
							ok = false
							break
						}
						// the unlinked descriptor with the source info that belongs to it
						p := proto.Clone(pr.FileDescriptorProto()).(*descriptorpb.FileDescriptorProto)
						p.SourceCodeInfo = proto.Clone(want[n].GetSourceCodeInfo()).(*descriptorpb.SourceCodeInfo)
						if want[n].SourceCodeInfo == nil {
							p.SourceCodeInfo = nil
						}
						protos[n] = p
						if forms[n] == c09ParseResultNoAST {
							prs[n] = parser.ResultWithoutAST(p)
						}
						snaps[n] = proto.Clone(p).(*descriptorpb.FileDescriptorProto)
					}
				}
				if !ok {
					fail("corpus", fmt.Sprintf("set %d cannot be parsed", si))
					continue
				}
				res := ResolverFunc(func(name string) (SearchResult, error) {
					s, ok := set[name]
					if !ok {
						return SearchResult{}, os.ErrNotExist
					}
					switch forms[name] {
					case c09AST:
						return SearchResult{AST: asts[name]}, nil
					case c09ParseResult, c09ParseResultNoAST, c09ParseResultWithInfo:
						return SearchResult{ParseResult: prs[name]}, nil
					case c09Proto:
						return SearchResult{Proto: protos[name]}, nil
					}
					return SearchResult{Source: strings.NewReader(s)}, nil
				})
				evals++
				if code != 0 { // non-trivial: at least one file is not supplied as source
					nontrivial++
				}
				if evals%211 == 3 && len(samples) < 3 {
					samples = append(samples, fmt.Sprintf("set %d mode %d %s", si, mode, desc))
				}
				got, err := c09compile(mode, res, names)
				if err != nil {
					fail("compile-error", fmt.Sprintf("set %d mode %d forms %s: %v", si, mode, desc, err))
					continue
				}
				for _, n := range names {
					if !c09eq(got[n], want[n]) {
						what := "descriptor"
						g, w := proto.Clone(got[n]).(*descriptorpb.FileDescriptorProto), proto.Clone(want[n]).(*descriptorpb.FileDescriptorProto)
						g.SourceCodeInfo, w.SourceCodeInfo = nil, nil
						if c09eq(g, w) {
							what = fmt.Sprintf("source info (%d locations, from source %d)", len(got[n].GetSourceCodeInfo().GetLocation()), len(want[n].GetSourceCodeInfo().GetLocation()))
						}
						fail("form-dependent", fmt.Sprintf("set %d mode %d forms %s: %s of %s differs from the all-source compilation", si, mode, desc, what, n))
					}
					if snap := snaps[n]; snap != nil {
						var now *descriptorpb.FileDescriptorProto
						if forms[n] == c09Proto || forms[n] == c09ParseResultNoAST {
							now = protos[n]
						} else {
							now = prs[n].FileDescriptorProto()
						}
						if !c09eq(now, snap) {
							fail("input-modified", fmt.Sprintf("set %d mode %d forms %s: the %s supplied for %s was modified by the compilation", si, mode, desc, c09formNames[forms[n]], n))
						}
					}
				}
			}
		}
	}
	// a link result kept from an earlier compilation (with source info, without AST) handed back
	// as the parse result of its file - the caching pattern: same descriptors as from source, and
	// the kept result's descriptor is not written (not even its source info under SourceInfoNone)
	for si, set := range c09sets {
		var names []string
		for n := range set {
			names = append(names, n)
		}
		first, err := (&Compiler{Resolver: WithStandardImports(c09sourceResolver(set)), SourceInfoMode: SourceInfoStandard}).Compile(context.Background(), names...)
		if err != nil {
			continue
		}
		for _, mode := range []SourceInfoMode{SourceInfoNone, SourceInfoStandard} {
			want, err := c09compile(mode, c09sourceResolver(set), names)
			if err != nil {
				continue
			}
			for _, f := range first {
				lr, ok := f.(linker.Result)
				if !ok {
					continue
				}
				n := f.Path()
				snap := proto.Clone(lr.FileDescriptorProto()).(*descriptorpb.FileDescriptorProto)
				res := ResolverFunc(func(name string) (SearchResult, error) {
					if name == n {
						return SearchResult{ParseResult: lr}, nil
					}
					s, ok := set[name]
					if !ok {
						return SearchResult{}, os.ErrNotExist
					}
					return SearchResult{Source: strings.NewReader(s)}, nil
				})
				evals++
				nontrivial++
				got, err := c09compile(mode, res, names)
				if err != nil {
					fail("compile-error", fmt.Sprintf("set %d mode %d, %s supplied as a kept link result: %v", si, mode, n, err))
					continue
				}
				for _, m := range names {
					if !c09eq(got[m], want[m]) {
						fail("form-dependent", fmt.Sprintf("set %d mode %d, %s supplied as a kept link result: descriptor of %s differs from the all-source compilation", si, mode, n, m))
					}
				}
				if !c09eq(lr.FileDescriptorProto(), snap) {
					fail("input-modified", fmt.Sprintf("set %d mode %d: the kept link result supplied for %s was modified by the compilation", si, mode, n))
				}
			}
		}
	}
	// concurrent compilations sharing the same supplied objects (run under the race detector
	// in the thorough tier): results equal, objects unchanged
	rounds := 4
	if thorough {
		rounds = 40
	}
	for r := 0; r < rounds; r++ {
		set := c09sets[r%len(c09sets)]
		mode := modes[r%len(modes)]
		var names []string
		for n := range set {
			names = append(names, n)
		}
		want, err := c09compile(mode, c09sourceResolver(set), names)
		if err != nil {
			continue
		}
		shared := map[string]SearchResult{}
		snaps := map[string]*descriptorpb.FileDescriptorProto{}
		k := 0
		for _, n := range names {
			fn, _ := parser.Parse(n, strings.NewReader(set[n]), reporter.NewHandler(nil))
			pr, _ := parser.ResultFromAST(fn, true, reporter.NewHandler(nil))
			if (k+r)%2 == 0 {
				p := proto.Clone(pr.FileDescriptorProto()).(*descriptorpb.FileDescriptorProto)
				if want[n].SourceCodeInfo != nil {
					p.SourceCodeInfo = proto.Clone(want[n].SourceCodeInfo).(*descriptorpb.SourceCodeInfo)
				} else if r%3 == 0 {
					// a proto that carries source info although the mode asks for none
					full, _ := c09compile(SourceInfoStandard, c09sourceResolver(set), names)
					p.SourceCodeInfo = proto.Clone(full[n].SourceCodeInfo).(*descriptorpb.SourceCodeInfo)
				}
				shared[n] = SearchResult{Proto: p}
				snaps[n] = proto.Clone(p).(*descriptorpb.FileDescriptorProto)
			} else {
				shared[n] = SearchResult{ParseResult: pr}
				snaps[n] = proto.Clone(pr.FileDescriptorProto()).(*descriptorpb.FileDescriptorProto)
			}
			k++
		}
		res := ResolverFunc(func(name string) (SearchResult, error) {
			if sr, ok := shared[name]; ok {
				return sr, nil
			}
			return SearchResult{}, os.ErrNotExist
		})
		var wg sync.WaitGroup
		var mu sync.Mutex
		for g := 0; g < 6; g++ {
			wg.Add(1)
			go func() {
				defer wg.Done()
				got, err := c09compile(mode, res, names)
				mu.Lock()
				defer mu.Unlock()
				evals++
				if err != nil {
					fail("compile-error", fmt.Sprintf("concurrent round %d: %v", r, err))
					return
				}
				for _, n := range names {
					if !c09eq(got[n], want[n]) {
						fail("form-dependent", fmt.Sprintf("concurrent round %d mode %d: descriptor of %s differs from the all-source compilation", r, mode, n))
					}
				}
			}()
		}
		wg.Wait()
		for n, snap := range snaps {
			now := shared[n].Proto
			if now == nil {
				now = shared[n].ParseResult.FileDescriptorProto()
			}
			if !c09eq(now, snap) {
				fail("input-modified", fmt.Sprintf("concurrent round %d: the object supplied for %s was modified", r, n))
			}
		}
	}
	var _ linker.Files
	for len(samples) < 3 {
		samples = append(samples, "")
	}
	fmt.Printf("BOUNDED: {\"evaluations\":%d,\"distinct\":%d,\"rule\":\"4 accepted source sets (proto3 with comments/maps/oneofs/services; proto2 with custom options, extensions, groups, defaults over two files; a three-file chain with a public import and an editions file; one file with custom options on every kind of element), plus every file in turn supplied as the link result kept from an earlier compilation (modes none and standard), x every assignment of {source, AST, ParseResult, Proto-with-its-source-info, ParseResult-without-AST, ParseResult-with-AST-and-standard-source-info} to the files (quick: a sixth of the 216 assignments of the three-file set) x all 8 source-info modes: every compiled FileDescriptorProto equals the all-source compilation of the same mode, and every supplied ParseResult/Proto equals its snapshot afterwards; plus %d rounds of 6 concurrent compilations from shared objects (thorough: under the race detector); distinct_nontrivial counts the distinct (set, mode, assignment) cases in which at least one file is not supplied as source\",\"exhaustive\":true,\"bound\":\"3 fixed source sets; all forms x all modes\",\"samples\":[%q,%q,%q]}\n", evals, nontrivial, rounds, samples[0], samples[1], samples[2])
}
