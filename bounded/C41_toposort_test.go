package toposort

// Bounded stand-in for C41, topological-sort half (labelled bounded, never counted as proved):
// every directed graph of the scope with every root list of the scope, against the
// specification (reachable nodes exactly once, children first), including re-use of one Sorter
// after complete and after abandoned iterations.

import (
	"fmt"
	"iter"
	"math/rand"
	"os"
	"slices"
	"testing"
)

// c41graph is an adjacency matrix over nodes 0..n-1 (bit j of adj[i]: edge i -> j).
type c41graph struct {
	n   int
	adj []uint
}

func (g c41graph) String() string {
	s := ""
	for i := 0; i < g.n; i++ {
		for j := 0; j < g.n; j++ {
			if g.adj[i]>>j&1 == 1 {
				s += fmt.Sprintf("%d->%d ", i+1, j+1)
			}
		}
	}
	return fmt.Sprintf("n=%d edges{%s}", g.n, s)
}

// Nodes are 1..n so that the zero value is not a node.
func (g c41graph) dag(v int) iter.Seq[int] {
	return func(yield func(int) bool) {
		for j := 0; j < g.n; j++ {
			if g.adj[v-1]>>j&1 == 1 && !yield(j+1) {
				return
			}
		}
	}
}

func (g c41graph) reach(roots []int) (set map[int]bool, cyclic bool) {
	set = map[int]bool{}
	state := map[int]int{}
	var dfs func(v int)
	dfs = func(v int) {
		set[v] = true
		state[v] = 1
		for j := 0; j < g.n; j++ {
			if g.adj[v-1]>>j&1 == 1 {
				switch state[j+1] {
				case 0:
					dfs(j + 1)
				case 1:
					cyclic = true
				}
			}
		}
		state[v] = 2
	}
	for _, r := range roots {
		if state[r] == 0 {
			dfs(r)
		}
	}
	return set, cyclic
}

// c41judge checks one complete output against the specification.
func c41judge(g c41graph, roots, out []int, panicked any) (string, string) {
	set, cyclic := g.reach(roots)
	desc := fmt.Sprintf("%v roots=%v", g, roots)
	if panicked != nil {
		if cyclic {
			return "cycle-panic", fmt.Sprintf("%s: Sort panics on cyclic input: %v", desc, panicked)
		}
		return "panic", fmt.Sprintf("%s: Sort panicked on a DAG: %v", desc, panicked)
	}
	pos := map[int]int{}
	for i, v := range out {
		if _, dup := pos[v]; dup {
			return "yield-twice", fmt.Sprintf("%s: node %d yielded twice in %v", desc, v, out)
		}
		if !set[v] {
			return "yield-unreachable", fmt.Sprintf("%s: node %d is not reachable from the roots, output %v", desc, v, out)
		}
		pos[v] = i
	}
	for v := range set {
		if _, ok := pos[v]; !ok {
			return "yield-missing", fmt.Sprintf("%s: reachable node %d missing from %v", desc, v, out)
		}
	}
	if !cyclic {
		for v := range set {
			for j := 0; j < g.n; j++ {
				if g.adj[v-1]>>j&1 == 1 && pos[j+1] > pos[v] {
					return "order", fmt.Sprintf("%s: node %d yielded before its child %d in %v", desc, v, j+1, out)
				}
			}
		}
	}
	return "", ""
}

func c41run(seq iter.Seq[int], stopAfter int) (out []int, panicked any) {
	defer func() { panicked = recover() }()
	for v := range seq {
		out = append(out, v)
		if stopAfter >= 0 && len(out) > stopAfter {
			break
		}
	}
	return out, nil
}

func TestVerifC41Toposort(t *testing.T) {
	thorough := os.Getenv("VERIF_TIER") == "thorough"
	evals, cyc := 0, 0
	fails := map[string]int{}
	fail := func(c, d string) {
		if c == "" {
			return
		}
		fails[c]++
		if fails[c] <= 3 {
			fmt.Printf("BOUNDED-FAIL: %s: %s\n", c, d)
		}
	}
	key := func(v int) int { return v }
	seenCase := map[string]bool{}
	distinct := 0
	var samples []string
	one := func(g c41graph, roots []int, reuse *Sorter[int, int], prior string) {
		evals++
		set, isCyc := g.reach(roots)
		if isCyc {
			cyc++
		}
		if k := fmt.Sprintf("%v|%v|%v", g, roots, reuse != nil); !seenCase[k] {
			seenCase[k] = true
			if len(set) >= 2 { // non-trivial: the sort has at least two nodes to order
				distinct++
			}
		}
		if evals%7001 == 3 && len(samples) < 3 {
			samples = append(samples, fmt.Sprintf("%v roots=%v", g, roots))
		}
		var out []int
		var p any
		if reuse != nil {
			out, p = c41run(reuse.Sort(roots, g.dag), -1)
		} else {
			out, p = c41run(Sort(roots, key, g.dag), -1)
		}
		c, d := c41judge(g, roots, out, p)
		if c != "" && c != "cycle-panic" && prior != "" {
			c, d = "reuse:"+c, prior+"; then "+d
		}
		fail(c, d)
	}
	maxN := 3
	if thorough {
		maxN = 4
	}
	var rootLists func(n int) [][]int
	rootLists = func(n int) [][]int {
		var rs [][]int
		for a := 1; a <= n; a++ {
			rs = append(rs, []int{a})
			for b := 1; b <= n; b++ {
				rs = append(rs, []int{a, b})
			}
		}
		all := make([]int, n)
		for i := range all {
			all[i] = n - i
		}
		return append(rs, all, nil)
	}
	for n := 1; n <= maxN; n++ {
		for code := uint(0); code < 1<<(n*n); code++ {
			g := c41graph{n: n, adj: make([]uint, n)}
			for i := 0; i < n; i++ {
				g.adj[i] = code >> (i * n) & (1<<n - 1)
			}
			for _, roots := range rootLists(n) {
				one(g, roots, nil, "")
			}
		}
	}
	exh := evals
	// Sorter re-use: after a complete iteration, after an iteration abandoned by break, and
	// after an iteration that ended in a panic, the next Sort must behave like a fresh one.
	rnd := rand.New(rand.NewSource(41))
	nr := 4000
	if thorough {
		nr = 80000
	}
	randGraph := func(acyclic bool) c41graph {
		n := 2 + rnd.Intn(6)
		g := c41graph{n: n, adj: make([]uint, n)}
		for i := 0; i < n; i++ {
			for j := 0; j < n; j++ {
				if rnd.Intn(3) == 0 && (!acyclic || j > i) {
					g.adj[i] |= 1 << j
				}
			}
		}
		return g
	}
	randRoots := func(g c41graph) []int {
		roots := make([]int, 1+rnd.Intn(3))
		for i := range roots {
			roots[i] = 1 + rnd.Intn(g.n)
		}
		return roots
	}
	for i := 0; i < nr; i++ {
		s := &Sorter[int, int]{Key: key}
		g1 := randGraph(i%4 != 0)
		r1 := randRoots(g1)
		stop := -1
		if i%2 == 0 {
			stop = rnd.Intn(3)
		}
		out1, p1 := c41run(s.Sort(r1, g1.dag), stop)
		prior := fmt.Sprintf("first %v roots=%v stopAfter=%d -> %v panic=%v", g1, r1, stop, out1, p1 != nil)
		if stop < 0 {
			c, d := c41judge(g1, r1, out1, p1)
			fail(c, d)
		}
		g2 := randGraph(true)
		one(g2, slices.Clone(randRoots(g2)), s, prior)
	}
	// the same sequence ranged over twice, and two sequences taken from one Sorter before either
	// is consumed: every pass must be judged like a fresh run
	for i := 0; i < nr/2; i++ {
		s := &Sorter[int, int]{Key: key}
		g1 := randGraph(true)
		r1 := randRoots(g1)
		if i%2 == 0 {
			seq := s.Sort(r1, g1.dag)
			out1, _ := c41run(seq, -1)
			out2, p2 := c41run(seq, -1)
			evals++
			c, d := c41judge(g1, r1, out2, p2)
			if c != "" {
				fail("rerange:"+c, fmt.Sprintf("%v roots=%v: first pass %v; second pass over the same sequence: %s", g1, r1, out1, d))
			}
		} else {
			g2 := randGraph(true)
			r2 := randRoots(g2)
			seqA := s.Sort(r1, g1.dag)
			seqB := s.Sort(r2, g2.dag)
			outA, pA := c41run(seqA, -1)
			outB, pB := c41run(seqB, -1)
			evals += 2
			if c, d := c41judge(g1, r1, outA, pA); c != "" {
				fail("two-seqs:"+c, fmt.Sprintf("first of two sequences taken from one Sorter: %s", d))
			}
			if c, d := c41judge(g2, r2, outB, pB); c != "" {
				fail("two-seqs:"+c, fmt.Sprintf("second of two sequences taken from one Sorter (first: %v roots=%v -> %v): %s", g1, r1, outA, d))
			}
		}
	}
	for len(samples) < 3 {
		samples = append(samples, "")
	}
	fmt.Printf("BOUNDED: {\"evaluations\":%d,\"distinct\":%d,\"rule\":\"every directed graph on <=%d nodes (all 2^(n*n) adjacency matrices, self-loops and cycles included; %d of the runs cyclic) with every root list of length <=2, the reversed node list and the empty list (%d exhaustive): the output holds exactly the nodes reachable from the roots, each once, and on acyclic input every node after all of its children; plus %d seeded pairs of runs on one Sorter (first run complete, abandoned by break after 1..3 nodes, or ended by a panic; second run on a random DAG on <=7 nodes judged like a fresh run) and half as many runs that range twice over one sequence or take two sequences from one Sorter before consuming either; distinct_nontrivial counts the distinct (graph, roots) cases with at least two reachable nodes\",\"exhaustive\":true,\"bound\":\"<=%d nodes exhaustive; re-use part sampled\",\"samples\":[%q,%q,%q]}\n", evals, distinct, maxN, cyc, exh, nr, maxN, samples[0], samples[1], samples[2])
}
