package report

// Bounded stand-in for C36, canonical-order half (labelled bounded, never counted as proved):
// for every diagnostic list of the scope, Canonicalize gives the same result for every input
// order, and canonicalizing twice changes nothing.

import (
	"fmt"
	"math/rand"
	"os"
	"sort"
	"strings"
	"testing"

	"github.com/bufbuild/protocompile/experimental/source"
)

type c36atom struct {
	file, stage, span, tag, msg, level, note int
}

var (
	c36files = []*source.File{source.NewFile("a.proto", "0123456789"), source.NewFile("b.proto", "0123456789")}
	c36spans = [][2]int{{0, 1}, {0, 2}, {2, 3}}
	c36tags  = []string{"", "t"}
	c36msgs  = []string{"m", "n"}
	c36lvls  = []Level{Error, Warning}
)

func (a c36atom) String() string {
	return fmt.Sprintf("{%s stage=%d [%d,%d) tag=%q msg=%q %v note=%d}", c36files[a.file].Path(), a.stage, c36spans[a.span][0], c36spans[a.span][1], c36tags[a.tag], c36msgs[a.msg], c36lvls[a.level], a.note)
}

// sameKeys: equal under the six keys Canonicalize documents and sorts by.
func (a c36atom) sameKeys(b c36atom) bool {
	return a.file == b.file && a.stage == b.stage && a.span == b.span && a.tag == b.tag && a.msg == b.msg
}

func c36build(list []c36atom, keep bool) *Report {
	r := &Report{Options: Options{KeepDuplicates: keep}}
	for _, a := range list {
		r.Stage = a.stage
		sp := source.Span{File: c36files[a.file], Start: c36spans[a.span][0], End: c36spans[a.span][1]}
		d := r.Levelf(c36lvls[a.level], "%s", c36msgs[a.msg]).Apply(Snippet(sp), Tag(c36tags[a.tag]))
		if a.note == 1 {
			d.Apply(Notef("x"))
		}
	}
	return r
}

func c36dump(r *Report) string {
	var b strings.Builder
	for _, d := range r.Diagnostics {
		fmt.Fprintf(&b, "<%v|%d|%q|%q|%q|%q|%q|%q", d.level, d.sortOrder, d.tag, d.message, d.inFile, d.notes, d.help, d.debug)
		for _, s := range d.snippets {
			fmt.Fprintf(&b, "|%s:%d-%d:%v:%q", s.Path(), s.Start, s.End, s.primary, s.message)
		}
		b.WriteString(">")
	}
	return b.String()
}

func c36perms(n int, f func(p []int)) {
	p := make([]int, n)
	for i := range p {
		p[i] = i
	}
	var rec func(k int)
	rec = func(k int) {
		if k == n {
			f(p)
			return
		}
		for i := k; i < n; i++ {
			p[k], p[i] = p[i], p[k]
			rec(k + 1)
			p[k], p[i] = p[i], p[k]
		}
	}
	rec(0)
}

func TestVerifC36Canonicalize(t *testing.T) {
	thorough := os.Getenv("VERIF_TIER") == "thorough"
	evals, lists, tiedLists, nontrivial := 0, 0, 0, 0
	seenList := map[string]bool{}
	fails := map[string]int{}
	var samples []string
	fail := func(c, d string) {
		fails[c]++
		if fails[c] <= 3 {
			fmt.Printf("BOUNDED-FAIL: %s: %s\n", c, d)
		}
	}
	// tied: two diagnostics agree on all six documented keys but are not the same diagnostic.
	// The documented order does not separate them (finding F8); everything else must be decided
	// by the keys alone.
	tied := func(list []c36atom) bool {
		for i, a := range list {
			for _, b := range list[:i] {
				if a.sameKeys(b) && a != b {
					return true
				}
			}
		}
		return false
	}
	checkList := func(list []c36atom, perms func(f func(order []int))) {
		lists++
		keyParts := make([]string, len(list))
		for i, a := range list {
			keyParts[i] = a.String()
		}
		sort.Strings(keyParts)
		if k := strings.Join(keyParts, ""); !seenList[k] {
			seenList[k] = true
			for _, a := range list[1:] {
				if a != list[0] { // non-trivial: at least two different diagnostics to put in order
					nontrivial++
					break
				}
			}
		}
		isTied := tied(list)
		if isTied {
			tiedLists++
		}
		if lists%3001 == 7 && len(samples) < 3 {
			samples = append(samples, fmt.Sprint(list))
		}
		for _, keep := range []bool{false, true} {
			var first, firstOrder string
			perms(func(order []int) {
				evals++
				in := make([]c36atom, len(list))
				for i, j := range order {
					in[i] = list[j]
				}
				r := c36build(in, keep)
				r.Canonicalize()
				got := c36dump(r)
				r.Canonicalize()
				if again := c36dump(r); again != got {
					c := "idempotence"
					if isTied {
						c = "tie-outside-keys"
					}
					fail(c, fmt.Sprintf("KeepDuplicates=%v input %v: canonicalizing twice changes the list: %s then %s", keep, in, got, again))
				}
				if first == "" {
					first, firstOrder = got, fmt.Sprint(in)
				} else if got != first {
					c := "order-dependent"
					if isTied {
						c = "tie-outside-keys"
					}
					fail(c, fmt.Sprintf("KeepDuplicates=%v: input %s gives %s but input %v gives %s", keep, firstOrder, first, in, got))
				}
			})
		}
	}
	var atoms []c36atom
	for f := range c36files {
		for st := 0; st < 2; st++ {
			for sp := range c36spans {
				for tg := range c36tags {
					for m := range c36msgs {
						for l := range c36lvls {
							for nt := 0; nt < 2; nt++ {
								atoms = append(atoms, c36atom{f, st, sp, tg, m, l, nt})
							}
						}
					}
				}
			}
		}
	}
	all := func(n int) func(f func([]int)) { return func(f func([]int)) { c36perms(n, f) } }
	// every pair
	for i, a := range atoms {
		for _, b := range atoms[:i+1] {
			checkList([]c36atom{a, b}, all(2))
		}
	}
	// every triple over the sub-universe on one file, without notes
	var sub []c36atom
	for _, a := range atoms {
		if a.file == 0 && a.note == 0 && a.span < 2 {
			sub = append(sub, a)
		}
	}
	for i := range sub {
		for j := 0; j <= i; j++ {
			for k := 0; k <= j; k++ {
				checkList([]c36atom{sub[i], sub[j], sub[k]}, all(3))
			}
		}
	}
	exh := lists
	// random longer lists (beyond the insertion-sort threshold of the library sort), 24 shuffles each
	rnd := rand.New(rand.NewSource(36))
	nr := 300
	if thorough {
		nr = 6000
	}
	for i := 0; i < nr; i++ {
		n := 4 + rnd.Intn(40)
		list := make([]c36atom, n)
		for j := range list {
			list[j] = atoms[rnd.Intn(len(atoms))]
			if i%2 == 0 { // no level/note variation: ties are exact duplicates, so F8 cannot mask anything
				list[j].level, list[j].note = 0, 0
			}
		}
		checkList(list, func(f func([]int)) {
			p := rnd.Perm(n)
			for s := 0; s < 24; s++ {
				f(p)
				rnd.Shuffle(n, func(a, b int) { p[a], p[b] = p[b], p[a] })
			}
		})
	}
	for len(samples) < 3 {
		samples = append(samples, "")
	}
	fmt.Printf("BOUNDED: {\"evaluations\":%d,\"distinct\":%d,\"rule\":\"every pair over 192 diagnostics (2 files x 2 stages x 3 spans x tag in {none,t} x 2 messages x {error,warning} x {no note, a note}) and every triple over 32 of them, in every input order, with and without KeepDuplicates (%d lists), plus %d seeded random lists of 4..43 diagnostics in 24 shuffles each: Canonicalize gives the same list for every order and is idempotent; %d of the lists hold two diagnostics that agree on all six sort keys yet differ (attributed to finding F8 when they fail); distinct_nontrivial counts the distinct multisets holding at least two different diagnostics\",\"exhaustive\":true,\"bound\":\"lists of <=3 diagnostics exhaustive; longer lists sampled\",\"samples\":[%q,%q,%q]}\n", evals, nontrivial, exh, nr, tiedLists, samples[0], samples[1], samples[2])
}
