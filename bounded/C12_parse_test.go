package parser

// Bounded stand-ins (labelled bounded, never counted as proved) for the halves of C12 and C11
// that live in the goyacc automaton, its semantic actions and parser/result.go, which the
// contract verifier does not reach:
//
//	C12: for every input of the scope, Parse returns a non-nil AST without panicking, returns an
//	     error exactly when one was reported, every reported position exists in the input, and
//	     ResultFromAST (with and without validation, strict and lenient reporter) never panics.
//	C11: for every accepted input of the scope, printing each token's leading comments, leading
//	     whitespace, raw text and trailing comments in AST order reproduces the input.

import (
	"encoding/json"
	"fmt"
	"math/rand"
	"os"
	"path/filepath"
	"strings"
	"testing"
	"unicode/utf8"

	"github.com/bufbuild/protocompile/ast"
	"github.com/bufbuild/protocompile/reporter"
)

func b12corpus() []string {
	var out []string
	filepath.Walk("../internal/testdata", func(path string, info os.FileInfo, err error) error {
		if err == nil && filepath.Ext(path) == ".proto" && info.Size() < 40000 {
			if b, err := os.ReadFile(path); err == nil {
				out = append(out, string(b))
			}
		}
		return nil
	})
	out = append(out,
		"", "\n", "// only a comment", "syntax = \"proto3\";", "\xef\xbb\xbfsyntax = \"proto2\";\nmessage M {}\n",
		"syntax = \"proto3\";\nmessage M {\n  local.foo.Bar a = 1;\n  export /*x*/ .foo\t.Bar b = 2;\n  .pkg . Baz c = 3;\n}\n",
		"syntax = \"proto2\";\nmessage M { map<string,string> a; map<string,string> b; optional int32 c; group G = 4 { } }\n",
		"syntax = \"proto2\";\nmessage M { optional int32 a = 1 [deprecated]; optional int32 b = 2 [default]; extensions 1 to max [x]; }\n",
		"syntax = \"proto3\";\noption (a.b).c = { x: 1, y: [1, 2, {z: \"s\" \"t\"}], [ext.n]: <k: -inf> };\nenum E { option allow_alias = true; A = 0; B = 0 [(o) = 1]; reserved 2, 3 to max, \"C\"; }\n",
		"edition = \"2023\";\nimport public \"a.proto\"; import weak \"b.proto\";\nservice S { rpc R (stream .a.B) returns (c.D) { option idempotency_level = IDEMPOTENT; }; ; }\nextend Foo { string s = 1; }\n",
		// edition 2024 syntax: import modifiers (incl. "option"), visibility keywords, with trivia
		"edition = \"2024\";\npackage p;\nimport \"a.proto\";\nimport public \"b.proto\"; // re-exported\nimport weak \"c.proto\";\nimport option \"d.proto\";\nimport /* opts */ option /* too */ \"e.proto\" ;\nexport message M { local.Foo a = 1; export /*k*/ . b . C c = 2; }\nlocal enum E { E0 = 0; }\nexport message N { local message Inner {} export enum IE { X = 0; } }\n",
		// value-less compact options under every syntax (validation looks some of them up by name)
		"syntax = \"proto3\";\nmessage M { string a = 1 [default]; repeated int32 b = 2 [packed, features]; }\nenum E { Z = 0 [features]; }\n",
		"edition = \"2023\";\nmessage M { repeated int32 a = 1 [packed]; string b = 2 [default, default]; int32 c = 3 [json_name]; }\n",
		"syntax = \"proto2\";\nmessage M { optional string a = 1 [deprecated = true, features]; optional int32 b = 2 [json_name, packed]; oneof o { option (x); int32 c = 3 [ctype]; } }\n",
		"syntax = \"proto3\";\nmessage \x00 { }", "message M { oneof o { int32 a = 1; group G = 2 {} } reserved 1 to 2; extensions 5; }",
	)
	// deep nesting
	out = append(out, "syntax=\"proto3\";"+strings.Repeat("message M{", 300)+strings.Repeat("}", 300))
	out = append(out, "option o = "+strings.Repeat("{a:", 300)+"1"+strings.Repeat("}", 300)+";")
	out = append(out, "option o = "+strings.Repeat("[", 400)+strings.Repeat("]", 400)+";")
	return out
}

var b12tokens = []string{"message", "enum", "service", "rpc", "returns", "stream", "option", "optional", "repeated", "required", "group", "oneof", "map", "<", ">", "extensions", "reserved", "to", "max", "extend", "import", "public", "weak", "package", "syntax", "edition", "=", ";", ",", ".", "{", "}", "[", "]", "(", ")", ":", "-", "+", "inf", "nan", "true", "1", "0x1F", "1.5e3", "\"s\"", "'t'", "foo", "a.b", "export", "local", "default", "json_name", "int32", "string", " ", "\n", "\t", "// c\n", "/* c */", "\xff", "\x00", "\\", "\"", "@", "€"}

// b12items returns the start offsets of the lexical items (tokens and comments) of an input the
// parser produced an AST for.
func b12items(fn *ast.FileNode) []int {
	var offs []int
	seq := fn.Items()
	for it, ok := seq.First(); ok; it, ok = seq.Next(it) {
		ii := fn.ItemInfo(it)
		if ii == nil {
			break
		}
		offs = append(offs, ii.Start().Offset)
	}
	return offs
}

func b12print(fn *ast.FileNode) string {
	var sb strings.Builder
	comments := func(c ast.Comments) {
		for i := 0; i < c.Len(); i++ {
			sb.WriteString(c.Index(i).LeadingWhitespace())
			sb.WriteString(c.Index(i).RawText())
		}
	}
	ast.Walk(fn, &ast.SimpleVisitor{DoVisitTerminalNode: func(tok ast.TerminalNode) error {
		info := fn.NodeInfo(tok)
		comments(info.LeadingComments())
		sb.WriteString(info.LeadingWhitespace())
		sb.WriteString(info.RawText())
		comments(info.TrailingComments())
		return nil
	}})
	return sb.String()
}

type b12stats struct {
	evals, accepted, rejected int
	fails                     map[string]int
	seen                      map[string]bool
	distinct                  int
}

func (s *b12stats) fail(c, format string, a ...any) {
	s.fails[c]++
	if s.fails[c] <= 3 {
		d := fmt.Sprintf(format, a...)
		if len(d) > 900 {
			d = d[:900] + "..."
		}
		fmt.Printf("BOUNDED-FAIL: %s: %s\n", c, d)
	}
}

// b12check runs one input through the C12 clauses (and the C11 clause when roundTrip is set).
func b12check(s *b12stats, in string, roundTrip bool) (fn *ast.FileNode, accepted bool) {
	s.evals++
	if !s.seen[in] {
		s.seen[in] = true
		s.distinct++
	}
	var errs []reporter.ErrorWithPos
	lenient := func() *reporter.Handler {
		return reporter.NewHandler(reporter.NewReporter(func(err reporter.ErrorWithPos) error {
			errs = append(errs, err)
			return nil
		}, nil))
	}
	var err error
	func() {
		defer func() {
			if r := recover(); r != nil {
				s.fail("parse-panic", "Parse panics on %q: %v", in, r)
				fn = nil
			}
		}()
		fn, err = Parse("t.proto", strings.NewReader(in), lenient())
		if fn == nil {
			s.fail("nil-ast", "Parse returns a nil AST for %q (err=%v)", in, err)
		}
	}()
	if fn == nil {
		return nil, false
	}
	if (err != nil) != (len(errs) > 0) {
		s.fail("error-report", "input %q: Parse error is %v but %d errors were reported", in, err, len(errs))
	}
	data := strings.TrimPrefix(in, "\xef\xbb\xbf")
	for _, e := range errs {
		p := e.GetPosition()
		if p.Offset < 0 || p.Offset > len(data) {
			s.fail("position", "input %q: error offset %d outside the input of length %d", in, p.Offset, len(data))
			continue
		}
		nl := strings.Count(data[:p.Offset], "\n")
		lineStart := strings.LastIndexByte(data[:p.Offset], '\n') + 1
		lineEnd := len(data)
		if i := strings.IndexByte(data[p.Offset:], '\n'); i >= 0 {
			lineEnd = p.Offset + i
		}
		maxCol := 1
		for i := lineStart; i < lineEnd; i++ {
			if data[i] == '\t' {
				maxCol += 8 - (maxCol-1)%8
			} else if utf8.RuneStart(data[i]) {
				maxCol++
			}
		}
		if p.Line != nl+1 || p.Col < 1 || p.Col > maxCol {
			s.fail("position", "input %q: error position %d:%d (offset %d) does not exist (line %d has columns 1..%d)", in, p.Line, p.Col, p.Offset, nl+1, maxCol)
		}
	}
	accepted = err == nil
	if accepted {
		s.accepted++
	} else {
		s.rejected++
	}
	// the AST a strict (aborting) reporter leaves behind is just as usable
	var strictFn *ast.FileNode
	func() {
		defer func() {
			if r := recover(); r != nil {
				s.fail("parse-panic", "Parse with the default (aborting) reporter panics on %q: %v", in, r)
			}
		}()
		strictFn, _ = Parse("t.proto", strings.NewReader(in), reporter.NewHandler(nil))
		if strictFn == nil {
			s.fail("nil-ast", "Parse with the default (aborting) reporter returns a nil AST for %q", in)
		}
	}()
	for _, tree := range []*ast.FileNode{fn, strictFn} {
		if tree == nil {
			continue
		}
		func() {
			defer func() {
				if r := recover(); r != nil {
					s.fail("nodeinfo-panic", "position information of the AST of %q (strict reporter: %v) panics: %v", in, tree == strictFn, r)
				}
			}()
			ast.Walk(tree, &ast.SimpleVisitor{DoVisitNode: func(n ast.Node) error {
				ni := tree.NodeInfo(n)
				a, b := ni.Start(), ni.End()
				if a.Line > b.Line || (a.Line == b.Line && a.Col > b.Col) {
					s.fail("span-order", "input %q: node %T starts at %d:%d after it ends at %d:%d", in, n, a.Line, a.Col, b.Line, b.Col)
				}
				return nil
			}})
		}()
		// a reporter that looks at the position of every error and warning
		func() {
			defer func() {
				if r := recover(); r != nil {
					s.fail("result-panic", "ResultFromAST with a position-reading reporter panics on %q (AST from strict reporter: %v): %v", in, tree == strictFn, r)
				}
			}()
			h := reporter.NewHandler(reporter.NewReporter(
				func(err reporter.ErrorWithPos) error { _ = err.GetPosition(); return nil },
				func(w reporter.ErrorWithPos) { _ = w.GetPosition() }))
			_, _ = ResultFromAST(tree, true, h)
		}()
	}
	// descriptor conversion never panics, whatever the reporter does
	for _, validate := range []bool{true, false} {
		for _, strict := range []bool{false, true} {
			func() {
				defer func() {
					if r := recover(); r != nil {
						s.fail("result-panic", "ResultFromAST(validate=%v, strict reporter=%v) panics on %q: %v", validate, strict, in, r)
					}
				}()
				h := lenient()
				if strict {
					h = reporter.NewHandler(nil)
				}
				_, _ = ResultFromAST(fn, validate, h)
			}()
		}
	}
	if roundTrip && accepted {
		if got := b12print(fn); got != data {
			i := 0
			for i < len(got) && i < len(data) && got[i] == data[i] {
				i++
			}
			lo := max(0, i-30)
			s.fail("roundtrip", "tokens printed in AST order differ from the source at offset %d: printed %q, source %q", i, got[lo:min(len(got), i+40)], data[lo:min(len(data), i+40)])
		}
	}
	return fn, accepted
}

func b12run(roundTrip bool) {
	thorough := os.Getenv("VERIF_TIER") == "thorough"
	s := &b12stats{fails: map[string]int{}, seen: map[string]bool{}}
	rnd := rand.New(rand.NewSource(1211))
	corpus := b12corpus()
	perFile := 25
	soups := 1500
	if thorough {
		perFile, soups = 400, 40000
	}
	trivia := []string{" ", "\t", "\n", "\r\n", "\f", "\v", "/* c */", "/** d\n * e */", "// c\n", "  // c\r\n", "/**/"}
	var samples []string
	for _, src := range corpus {
		fn, ok := b12check(s, src, roundTrip)
		if fn == nil {
			continue
		}
		offs := b12items(fn)
		if len(offs) < 2 {
			continue
		}
		bom := len(src) - len(strings.TrimPrefix(src, "\xef\xbb\xbf"))
		for k := 0; k < perFile; k++ {
			var m string
			if roundTrip && ok {
				// trivia mutants: insert whitespace and comments in front of random items (stays
				// accepted unless the item is inside a syntax the grammar restricts)
				m = src
				n := 1 + rnd.Intn(6)
				idx := make([]int, n)
				for i := range idx {
					idx[i] = offs[rnd.Intn(len(offs))] + bom
				}
				// insert from the back so earlier offsets stay valid
				for i := range idx {
					for j := i + 1; j < len(idx); j++ {
						if idx[j] > idx[i] {
							idx[i], idx[j] = idx[j], idx[i]
						}
					}
				}
				for _, o := range idx {
					m = m[:o] + trivia[rnd.Intn(len(trivia))] + m[o:]
				}
			} else {
				a := offs[rnd.Intn(len(offs))] + bom
				b := offs[rnd.Intn(len(offs))] + bom
				if a > b {
					a, b = b, a
				}
				switch rnd.Intn(7) {
				case 0: // truncation
					m = src[:a]
				case 1: // delete a run of items
					if b-a > 200 {
						b = a + 200
					}
					m = src[:a] + src[b:]
				case 2: // duplicate a run of items
					if b-a > 200 {
						b = a + 200
					}
					m = src[:b] + src[a:b] + src[b:]
				case 3: // insert a token
					m = src[:a] + b12tokens[rnd.Intn(len(b12tokens))] + " " + src[a:]
				case 4: // replace the start of an item by a token
					e := min(len(src), a+1+rnd.Intn(4))
					m = src[:a] + b12tokens[rnd.Intn(len(b12tokens))] + src[e:]
				case 5: // flip a byte anywhere
					o := rnd.Intn(len(src))
					m = src[:o] + string([]byte{byte(rnd.Intn(256))}) + src[o+1:]
				case 6: // truncate in the middle of an item
					m = src[:min(len(src), a+rnd.Intn(3))]
				}
			}
			if len(samples) < 3 && k == 7 && len(m) < 300 {
				samples = append(samples, m)
			}
			b12check(s, m, roundTrip)
		}
	}
	// grammar-token soups
	for i := 0; i < soups; i++ {
		var sb strings.Builder
		if i%3 == 0 {
			sb.WriteString("syntax = \"proto2\";\nmessage M {\n")
		}
		n := 1 + rnd.Intn(24)
		for j := 0; j < n; j++ {
			sb.WriteString(b12tokens[rnd.Intn(len(b12tokens))])
			if rnd.Intn(3) > 0 {
				sb.WriteByte(' ')
			}
		}
		if i%3 == 0 && rnd.Intn(2) == 0 {
			sb.WriteString("\n}\n")
		}
		b12check(s, sb.String(), roundTrip)
	}
	for len(samples) < 3 {
		samples = append(samples, "")
	}
	what := "C12: Parse returns a non-nil AST without panicking, an error exactly when one was reported, every reported position exists (line = 1+newlines before the offset, column within the line), ResultFromAST x {validate, no validate} x {lenient, strict reporter} never panics"
	if roundTrip {
		what = "C11: for accepted inputs, leading comments + leading whitespace + raw text + trailing comments of every terminal in ast.Walk order reproduce the input (byte-order mark excepted); the C12 clauses are checked on the way"
	}
	fmt.Printf("BOUNDED: {\"evaluations\":%d,\"distinct\":%d,\"rule\":\"%d corpus inputs (all of internal/testdata below 40 kB, hand-written corner files, 300-400 deep nestings), %d mutants of each (%s), %d token soups over %d grammar tokens and junk bytes; %s; %d inputs accepted, %d rejected; distinct_nontrivial counts distinct inputs\",\"exhaustive\":false,\"bound\":\"sampled: seeded mutants and soups\",\"samples\":[%s,%s,%s]}\n",
		s.evals, s.distinct, len(corpus), perFile, map[bool]string{true: "trivia inserted in front of random items", false: "truncation, deletion/duplication of item runs, token insertion/replacement, byte flips"}[roundTrip], soups, len(b12tokens), what, s.accepted, s.rejected, b12json(samples[0]), b12json(samples[1]), b12json(samples[2]))
}

// b12json renders a sample as a JSON string (Go's %q escapes such as \x00 are not JSON).
func b12json(s string) string {
	b, _ := json.Marshal(fmt.Sprintf("%q", s))
	return string(b)
}

func TestVerifC12Bounded(t *testing.T) { b12run(false) }

func TestVerifC11Bounded(t *testing.T) { b12run(true) }
