package linker

// Bounded stand-in for C26 (labelled bounded, never counted as proved): for every byte string of
// the scope, the text internal.EscapeBytes writes into a descriptor decodes back to the same
// bytes (a) with this compiler's unescape and (b) in the Go protobuf runtime (protodesc +
// FieldDescriptor.Default).

import (
	"bytes"
	"fmt"
	"os"
	"testing"

	"google.golang.org/protobuf/proto"
	"google.golang.org/protobuf/reflect/protodesc"
	"google.golang.org/protobuf/types/descriptorpb"

	"github.com/bufbuild/protocompile/internal"
)

func c26runtimeDefault(esc string) ([]byte, error) {
	fdp := &descriptorpb.FileDescriptorProto{
		Name:   proto.String("t.proto"),
		Syntax: proto.String("proto2"),
		MessageType: []*descriptorpb.DescriptorProto{{
			Name: proto.String("M"),
			Field: []*descriptorpb.FieldDescriptorProto{{
				Name: proto.String("f"), Number: proto.Int32(1), JsonName: proto.String("f"),
				Label: descriptorpb.FieldDescriptorProto_LABEL_OPTIONAL.Enum(), Type: descriptorpb.FieldDescriptorProto_TYPE_BYTES.Enum(),
				DefaultValue: proto.String(esc),
			}},
		}},
	}
	fd, err := protodesc.NewFile(fdp, nil)
	if err != nil {
		return nil, err
	}
	return fd.Messages().Get(0).Fields().Get(0).Default().Bytes(), nil
}

func TestVerifC26Bounded(t *testing.T) {
	thorough := os.Getenv("VERIF_TIER") == "thorough"
	evals, distinct := 0, 0
	fails := map[string]int{}
	fail := func(kind, format string, a ...any) {
		fails[kind]++
		if fails[kind] <= 3 {
			fmt.Printf("BOUNDED-FAIL: %s: %s\n", kind, fmt.Sprintf(format, a...))
		}
	}
	var samples []string
	check := func(d []byte, runtime bool) {
		evals++
		esc := internal.EscapeBytes(d)
		if esc != string(d) {
			distinct++ // the enumeration never repeats a string; non-trivial = something had to be escaped
		}
		if evals%20011 == 7 && len(samples) < 3 {
			samples = append(samples, fmt.Sprintf("%q -> %q", d, esc))
		}
		if got := unescape(esc); got != string(d) {
			fail("unescape", "unescape(EscapeBytes(%q) = %q) = %q", d, esc, got)
		}
		if esc2 := internal.EscapeBytes(string(d)); esc2 != esc {
			fail("generic", "EscapeBytes differs for string and []byte arguments: %q vs %q", esc2, esc)
		}
		if runtime {
			got, err := c26runtimeDefault(esc)
			if err != nil {
				fail("runtime", "Go runtime rejects default %q (for bytes %q): %v", esc, d, err)
			} else if !bytes.Equal(got, d) {
				fail("runtime", "Go runtime decodes default %q to %q, want %q", esc, got, d)
			}
		}
	}
	check(nil, true)
	for a := 0; a < 256; a++ {
		check([]byte{byte(a)}, true)
		for b := 0; b < 256; b++ {
			check([]byte{byte(a), byte(b)}, thorough || (a%5 == 0 && b%3 == 0) || a == '\\' || b == '\\' || a < 8 || b >= 0x7f && b <= 0x81)
		}
	}
	alpha := []byte{0x00, 0x01, 0x07, '\n', '"', '\'', '\\', '0', '1', '7', '8', 'n', 'x', 'a', 0x7f, 0x80, 0xff}
	maxLen := 4
	var gen func(prefix []byte)
	gen = func(prefix []byte) {
		if len(prefix) >= 3 {
			check(prefix, len(prefix) == 3 || thorough)
		}
		if len(prefix) == maxLen {
			return
		}
		for _, c := range alpha {
			gen(append(append([]byte(nil), prefix...), c))
		}
	}
	gen(nil)
	fmt.Printf("BOUNDED: {\"evaluations\":%d,\"distinct\":%d,\"rule\":\"every byte string of length <=2 over all 256 values and of length 3..4 over a 17-byte corner alphabet (controls, quotes, backslash, octal/hex digits, letters of escapes, 0x7f..0xff): unescape(EscapeBytes(d)) == d for both instantiations of the generic; distinct_nontrivial counts the strings (never enumerated twice) in which at least one byte had to be escaped; the Go-runtime half (protodesc.NewFile + Default()) on length <=1, a stratified part of length 2 and all of length 3 (thorough: everything)\",\"exhaustive\":true,\"bound\":\"len<=2 over 256 values; len<=4 over 17 values\",\"samples\":[%q,%q,%q]}\n", evals, distinct, samples[0], samples[1], samples[2])
}
