package decimal

// Bounded stand-in for C39 (labelled bounded, never counted as proved): Decimal.Parse followed
// by Float64 is compared with strconv.ParseFloat (the statement's own oracle) and with exact
// rational rounding over an exhaustive
// grid of short mantissas x exponents plus families of hard cases; the exact flag is checked
// against exact rational arithmetic. A single Decimal is also re-used across parses.

import (
	"fmt"
	"math"
	"math/big"
	"math/rand"
	"os"
	"strconv"
	"strings"
	"testing"
)

func c39exactValue(s string) (*big.Rat, bool) {
	// decimal numerals only: mantissa[.frac][e±k]
	r, ok := new(big.Rat).SetString(s)
	return r, ok
}

func TestVerifC39Bounded(t *testing.T) {
	thorough := os.Getenv("VERIF_TIER") == "thorough"
	evals := 0
	vals := map[uint64]bool{} // distinct finite non-zero binary64 values among the expected answers
	fails := map[string]int{}
	var samples []string
	stdlibDeviates := 0
	fail := func(kind, format string, a ...any) {
		fails[kind]++
		if fails[kind] <= 3 {
			fmt.Printf("BOUNDED-FAIL: %s: %s\n", kind, fmt.Sprintf(format, a...))
		}
	}
	check := func(z *Decimal, s string, checkExact bool) {
		evals++
		if len(samples) < 3 && evals%977 == 1 {
			samples = append(samples, s)
		}
		want, err := strconv.ParseFloat(s, 64)
		if err != nil && !math.IsInf(want, 0) {
			return
		}
		// The statement's oracle is the standard library, meant as "the nearest binary64, ties
		// to even". strconv.ParseFloat (Go 1.23..1.26) is itself wrong for integer numerals of
		// more than 800 digits that miss its fast paths (it loses count of the digits it drops:
		// "99..9" with 881 digits "e-880" comes back as 1e-80), so decimal numerals are also
		// rounded with exact rational arithmetic, and where the two oracles disagree the exact
		// one decides (counted, reported in the summary).
		if r, ok := c39exactValue(s); ok && !strings.ContainsAny(s, "xXpP") {
			if ex, _ := r.Float64(); math.Float64bits(ex) != math.Float64bits(want) {
				stdlibDeviates++
				want = ex
			}
		}
		if want != 0 && !math.IsInf(want, 0) {
			vals[math.Float64bits(want)] = true
		}
		d, perr := z.Parse(s)
		if perr != nil {
			fail("parse", "Parse(%q): %v", s, perr)
			return
		}
		got, exact := d.Float64()
		if math.Float64bits(got) != math.Float64bits(want) {
			kind := "rounding"
			fail(kind, "Float64(%q) = %v (%#x), strconv gives %v (%#x)", s, got, math.Float64bits(got), want, math.Float64bits(want))
		}
		if checkExact && exact {
			if r, ok := c39exactValue(s); ok && !math.IsInf(got, 0) {
				if new(big.Rat).SetFloat64(got).Cmp(r) != 0 {
					fail("exact-flag", "Float64(%q) reports exact=true but the value was rounded (%v)", s, got)
				}
			}
		}
	}
	// 1. exhaustive grid: mantissas up to 3 (thorough: 4) digits x exponents
	maxM := 999
	lo, hi := -345, 320
	if thorough {
		maxM = 9999
	}
	for m := 1; m <= maxM; m++ {
		step := 1
		if !thorough && m > 99 {
			step = 7
		}
		for e := lo; e <= hi; e += step {
			check(new(Decimal), fmt.Sprintf("%de%d", m, e), true)
		}
	}
	// 2. fractional forms and long/halfway mantissas
	for _, s := range []string{"0.1", "0.5", "0.25", "0.125", "1.5", "59.594", "1e23", "1e-40", "7e-23", "9007199254740993", "9007199254740992", "9007199254740991e1",
		"1.7976931348623157e308", "1.7976931348623159e308", "4.9406564584124654e-324", "2.4703282292062327e-324", "2.4703282292062328e-324", "2.2250738585072014e-308", "2.2250738585072011e-308",
		"0.000000000000000000000000000001", "123456789012345678901234567890", "1" + strings.Repeat("0", 400), "0." + strings.Repeat("0", 400) + "1"} {
		check(new(Decimal), s, true)
	}
	// 3. long mantissas (digits() / log10 estimates)
	for _, n := range []int{20, 60, 300, 700, 880, 1000, 1300} {
		check(new(Decimal), "1."+strings.Repeat("2345", n/4)+"e3", false)
		check(new(Decimal), "9"+strings.Repeat("9", n)+"e-"+strconv.Itoa(n), false)
	}
	// 3a. long mantissas that sit on or next to a rounding boundary (strconv's fast paths give
	// up on them; beyond 800 digits its slow path must be handed a decimal point - F16)
	for _, n := range []int{0, 1, 300, 700, 783, 784, 785, 800, 900, 1300} {
		for _, head := range []string{"9007199254740993", "9007199254740995", "4503599627370497.5", "1.00000000000000011102230246251565404236316680908203125"} {
			for _, tail := range []string{"", "1", "9"} {
				z := strings.Repeat("0", n)
				body := head + z + tail
				if !strings.Contains(head, ".") {
					check(new(Decimal), head+"."+z+tail, false)
					check(new(Decimal), body+"e-"+strconv.Itoa(n+len(tail)), false)
				}
				check(new(Decimal), body, false)
				check(new(Decimal), body+"e-310", false)
			}
		}
	}
	// 3b. mantissas around and above 2^53 (16..21 digits) with the small exponents of the
	// exact-power-of-ten window, written with and without a decimal point
	rnd := rand.New(rand.NewSource(39))
	nlong := 3000
	if thorough {
		nlong = 60000
	}
	for i := 0; i < nlong; i++ {
		nd := 16 + rnd.Intn(6)
		var sb strings.Builder
		sb.WriteByte(byte('1' + rnd.Intn(9)))
		for j := 1; j < nd; j++ {
			sb.WriteByte(byte('0' + rnd.Intn(10)))
		}
		m := sb.String()
		if i%5 == 0 {
			m = strconv.FormatUint(1<<53+uint64(rnd.Intn(64))-32, 10)
		}
		e := rnd.Intn(51) - 25
		switch i % 3 {
		case 0:
			check(new(Decimal), m+"e"+strconv.Itoa(e), true)
		case 1:
			p := 1 + rnd.Intn(len(m)-1)
			check(new(Decimal), m[:p]+"."+m[p:]+"e"+strconv.Itoa(e), true)
		default:
			p := 1 + rnd.Intn(len(m)-1)
			check(new(Decimal), m[:p]+"."+m[p:], true)
		}
	}
	// 4. one Decimal re-used across parses (hex/binary-exponent then decimal, and back)
	z := new(Decimal)
	for _, s := range []string{"0x1p4", "1.5", "0x1.8p1", "2.5e3", "1p3", "0.1", "1e22", "0x10", "123.456e-7"} {
		check(z, s, false)
	}
	rule := "decimal numerals m e k for all mantissas m up to the bound and exponents in [-345,320] (quick: every exponent for m<100, every 7th above), plus seeded random mantissas of 16..21 digits (around and above 2^53) with exponents -25..25, with and without a decimal point, named hard cases (halfway, subnormal, overflow, long mantissas up to 1300 digits) and a re-used Decimal; compared bit-for-bit with strconv.ParseFloat and with exact rational rounding (big.Rat.Float64; it decides where strconv itself is wrong: long integer numerals beyond 800 digits); exact flag checked with big.Rat"
	ss := make([]string, 0, 3)
	for _, s := range samples {
		ss = append(ss, fmt.Sprintf("%q", s))
	}
	fmt.Printf("BOUNDED: {\"evaluations\":%d,\"distinct\":%d,\"rule\":%q,\"exhaustive\":true,\"bound\":\"mantissa <= %d, exponent -345..320\",\"samples\":[%s]}\n", evals, len(vals), rule+fmt.Sprintf("; strconv deviated from exact rounding on %d numerals", stdlibDeviates)+"; distinct_nontrivial counts the distinct finite non-zero binary64 values among the expected results (numerals such as 10e1 and 1e2 count once; zero and overflow count as trivial)", maxM, strings.Join(ss, ","))
}
