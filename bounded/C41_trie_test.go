package trie

// Bounded stand-in for C41, prefix-trie half (labelled bounded, never counted as proved): every
// key set of the scope against the specification (Prefixes lists exactly the inserted keys that
// prefix the query, shortest first, with their latest values; Get returns the longest of them),
// plus large random key sets that force the index width to grow.

import (
	"fmt"
	"math/rand"
	"os"
	"sort"
	"testing"
)

func c41trieCheck(tr *Trie[int], model map[string]int, q string) (string, string) {
	var want []string
	for i := 0; i <= len(q); i++ {
		if _, ok := model[q[:i]]; ok {
			want = append(want, q[:i])
		}
	}
	var got []string
	for p, v := range tr.Prefixes(q) {
		got = append(got, p)
		if mv, ok := model[p]; !ok || mv != v {
			return "prefixes-value", fmt.Sprintf("Prefixes(%q) yields (%q,%d); model has %d (present=%v)", q, p, v, mv, ok)
		}
	}
	if fmt.Sprint(got) != fmt.Sprint(want) {
		return "prefixes-list", fmt.Sprintf("Prefixes(%q) = %q, want %q", q, got, want)
	}
	p, v := tr.Get(q)
	if len(want) == 0 {
		if p != "" || v != 0 {
			return "get-none", fmt.Sprintf("Get(%q) = (%q,%d), want (\"\",0)", q, p, v)
		}
	} else if w := want[len(want)-1]; p != w || v != model[w] {
		return "get-longest", fmt.Sprintf("Get(%q) = (%q,%d), want (%q,%d)", q, p, v, w, model[w])
	}
	return "", ""
}

func TestVerifC41Trie(t *testing.T) {
	thorough := os.Getenv("VERIF_TIER") == "thorough"
	evals, sets, nontrivial := 0, 0, 0
	fails := map[string]int{}
	fail := func(c, d, ctx string) {
		if c == "" {
			return
		}
		fails[c]++
		if fails[c] <= 3 {
			fmt.Printf("BOUNDED-FAIL: %s: keys %s: %s\n", c, ctx, d)
		}
	}
	// 'a' and 'q' share the low nybble, 'a' and 'b' the high one; 0x00 and 0xff are the extremes.
	alpha := []byte{'a', 'b', 'q'}
	var keys []string
	keys = append(keys, "")
	for _, x := range alpha {
		keys = append(keys, string([]byte{x}))
		for _, y := range alpha {
			keys = append(keys, string([]byte{x, y}))
		}
	}
	var queries []string
	var genq func(p []byte, n int)
	genq = func(p []byte, n int) {
		queries = append(queries, string(p))
		if n == 0 {
			return
		}
		for _, x := range append(alpha, 0xff) {
			genq(append(append([]byte(nil), p...), x), n-1)
		}
	}
	genq(nil, 3)
	rnd := rand.New(rand.NewSource(4141))
	var samples []string
	step := 1
	if !thorough {
		step = 3
	}
	for mask := 0; mask < 1<<len(keys); mask += step {
		var ks []string
		for i, k := range keys {
			if mask>>i&1 == 1 {
				ks = append(ks, k)
			}
		}
		// insertion order varies with the set; one key is inserted twice (the later value wins)
		rnd.Shuffle(len(ks), func(i, j int) { ks[i], ks[j] = ks[j], ks[i] })
		if len(ks) > 0 {
			ks = append(ks, ks[0])
		}
		tr := new(Trie[int])
		model := map[string]int{}
		for i, k := range ks {
			tr.Insert(k, i+1)
			model[k] = i + 1
		}
		sets++
		nested := false
		for a := range model {
			for b := range model {
				if a != b && len(a) < len(b) && b[:len(a)] == a {
					nested = true
				}
			}
		}
		if nested { // non-trivial: one inserted key is a proper prefix of another
			nontrivial++
		}
		if sets%997 == 5 && len(samples) < 3 {
			samples = append(samples, fmt.Sprintf("%q", ks))
		}
		for _, q := range queries {
			evals++
			c, d := c41trieCheck(tr, model, q)
			fail(c, d, fmt.Sprintf("%q", ks))
		}
	}
	// keys are byte strings, not text: multi-byte UTF-8 characters, their lead bytes alone, lone
	// continuation bytes and invalid bytes, all subsets of ten such keys, queried with the keys
	// themselves, their one-byte truncations and extensions
	bkeys := []string{"\xc3\xa9", "\xc3", "\xc2\xb5", "\xc2\xb5s", "\xe6\x97\xa5", "\xe6\x97\xa5\xe6\x9c\xac", "\xe6", "\xff", "\x00", "a\x80"}
	var bqueries []string
	for _, k := range bkeys {
		bqueries = append(bqueries, k, k+"\xa9", k+"z")
		if len(k) > 1 {
			bqueries = append(bqueries, k[:len(k)-1], k[1:])
		}
	}
	bsets := 0
	for mask := 0; mask < 1<<len(bkeys); mask += step {
		var ks []string
		for i, k := range bkeys {
			if mask>>i&1 == 1 {
				ks = append(ks, k)
			}
		}
		rnd.Shuffle(len(ks), func(i, j int) { ks[i], ks[j] = ks[j], ks[i] })
		tr := new(Trie[int])
		model := map[string]int{}
		for i, k := range ks {
			tr.Insert(k, i+1)
			model[k] = i + 1
		}
		bsets++
		for _, q := range bqueries {
			evals++
			c, d := c41trieCheck(tr, model, q)
			fail(c, d, fmt.Sprintf("%q", ks))
		}
	}
	exh := sets
	// growth: branching key sets large enough to pass 255 nodes (and, thorough, 65535 nodes)
	big := 12
	if thorough {
		big = 60
	}
	wide := []byte{'a', 'b', 'c', 'q', 'r', 0x00, 0x0f, 0xf0, 0xff}
	for round := 0; round < big; round++ {
		tr := new(Trie[int])
		model := map[string]int{}
		var order []string
		n := 150 + rnd.Intn(900)
		if thorough && round%20 == 19 {
			n = 40000
		}
		maxLen := 3 + rnd.Intn(6)
		for i := 0; i < n; i++ {
			k := make([]byte, 1+rnd.Intn(maxLen))
			for j := range k {
				k[j] = wide[rnd.Intn(len(wide))]
			}
			if round%3 == 0 { // long shared prefixes: growth happens deep in a chain with side branches
				k = append([]byte("aaaaaa"), k...)
			}
			tr.Insert(string(k), i+1)
			model[string(k)] = i + 1
			order = append(order, string(k))
			// every so often, re-check everything inserted so far (catches loss at a growth step)
			if i%97 == 0 || i == n-1 {
				lim := len(order)
				if n > 5000 && i != n-1 {
					lim = min(50, len(order))
				}
				for _, q := range order[len(order)-lim:] {
					evals++
					c, d := c41trieCheck(tr, model, q+"a")
					fail(c, d, fmt.Sprintf("(random set #%d, %d keys so far)", round, i+1))
				}
			}
		}
		sets++
		nontrivial++ // random sets of >=150 keys over 9 byte values always hold nested keys
		// the listing must also be complete for queries that run off the trie
		qs := make([]string, 0, len(model))
		for k := range model {
			qs = append(qs, k)
		}
		sort.Strings(qs)
		for _, q := range qs[:min(len(qs), 200)] {
			evals++
			c, d := c41trieCheck(tr, model, q+"\xff\x00zz")
			fail(c, d, fmt.Sprintf("(random set #%d)", round))
		}
	}
	for len(samples) < 3 {
		samples = append(samples, "")
	}
	fmt.Printf("BOUNDED: {\"evaluations\":%d,\"distinct\":%d,\"rule\":\"%s key sets over the 13 keys of length <=2 on {a,b,q} (shuffled insertion order, one key inserted twice) x all %d queries of length <=3 on {a,b,q,0xff} (%d sets), plus subsets of ten byte-string keys that are not ASCII text (multi-byte UTF-8 characters, bare lead and continuation bytes, 0x00, 0xff) with their truncations and extensions as queries, plus %d seeded random branching key sets of 150..1050 keys (thorough: also 40000) over 9 byte values that force the 8->16(->32)-bit index growth, re-checked after every 97th insertion: Prefixes(q) lists exactly the inserted keys prefixing q, shortest first, each with its latest value; Get(q) returns the longest, or (\\\"\\\",0) when there is none; distinct_nontrivial counts the distinct key sets in which one key is a proper prefix of another\",\"exhaustive\":%v,\"bound\":\"keys of length <=2 over 3 letters; growth part sampled\",\"samples\":[%q,%q,%q]}\n", evals, nontrivial, map[bool]string{true: "all 8192", false: "every third of the 8192"}[thorough], len(queries), exh, big, thorough, samples[0], samples[1], samples[2])
}
