#!/bin/sh
# usage: tools_seedtest.sh <patch.diff> <ID>...   -- applies a seeded change to a scratch worktree of /repo HEAD and runs the checks there
P=$1; shift
WT=/tmp/wt-test
git -C $WT checkout -q -- . && git -C $WT clean -fdq
git -C $WT apply "$P" || { echo "patch does not apply"; exit 3; }
for id in "$@"; do
  /verif/bin/govc check $id --repo $WT --out /tmp/seedout 2>&1 | grep -v "^  " | cut -c1-260 | tail -6
done
git -C $WT checkout -q -- . && git -C $WT clean -fdq
